"""Transparent treatment of helper functions the rule tables do not know.

The rules in c01..c20 reason about the internals of named functions
(dominance, guards, orderings).  The commonest behaviour-preserving
maintenance edit that would blind such a rule is "extract a few lines into a
new private helper".  This module makes that edit invisible to the rules:
every *direct* call to a crate function that

  * has a MIR body in the fact base,
  * is not a trait method reached through dispatch (declared == resolved),
  * is not recursive,
  * and is **not one of the functions that existed when the rule tables were
    written** (rules/known_fns.txt, generics stripped),

is replaced by the callee's blocks (locals and blocks renumbered, arguments
bound by assignments, `return` turned into `dest = _0; goto target`).  On a
tree that adds no functions nothing is inlined, so the analysis of the
pinned tree is exactly the analysis of the original bodies.  A helper that
is new is analysed as if its lines were still in the caller — whether the
edit was harmless or is hiding a broken guard.

Functions in known_fns.txt are never inlined: the rule tables name many of
them as anchors (check_response, update_shim, Versioned::remove, ...).
"""
import copy
import os
import re

HERE = os.path.dirname(os.path.abspath(__file__))
KNOWN_FILE = os.path.join(HERE, "known_fns.txt")
MAX_CALLEE_BLOCKS = 400
MAX_DEPTH = 3


def nogen(path):
    """def path with every generic argument list removed."""
    out = []
    depth = 0
    i = 0
    while i < len(path):
        if path.startswith("::<", i):
            depth += 1
            i += 3
            continue
        c = path[i]
        if depth:
            if c == "<":
                depth += 1
            elif c == ">":
                depth -= 1
            i += 1
            continue
        out.append(c)
        i += 1
    return "".join(out)


def load_known():
    if not os.path.exists(KNOWN_FILE):
        return None
    with open(KNOWN_FILE) as fh:
        return set(l.rstrip("\n") for l in fh if l.strip() and not l.startswith("#"))


# -- renumbering ---------------------------------------------------------------

def _place(pl, lo):
    out = [pl[0] + lo]
    for pr in pl[1:]:
        if isinstance(pr, list) and pr and pr[0] == "[]":
            out.append(["[]", pr[1] + lo])
        else:
            out.append(pr)
    return out


def _operand(op, lo):
    if op[0] in ("c", "m"):
        return [op[0], _place(op[1], lo)]
    return op


def _rvalue(rv, lo):
    k = rv[0]
    if k == "use":
        return ["use", _operand(rv[1], lo)] + rv[2:]
    if k == "repeat":
        return ["repeat", _operand(rv[1], lo)] + rv[2:]
    if k == "ref":
        return ["ref", rv[1], _place(rv[2], lo)]
    if k == "ptr":
        return ["ptr", rv[1], _place(rv[2], lo)]
    if k == "cast":
        return ["cast", rv[1], _operand(rv[2], lo)] + rv[3:]
    if k == "bin":
        return ["bin", rv[1], _operand(rv[2], lo), _operand(rv[3], lo)]
    if k == "un":
        return ["un", rv[1], _operand(rv[2], lo)]
    if k == "discr":
        return ["discr", _place(rv[1], lo)] + rv[2:]
    if k == "agg":
        return ["agg", rv[1], [_operand(o, lo) for o in rv[2]]]
    if k == "deref":
        return ["deref", _place(rv[1], lo)]
    return rv


def _stmt(st, lo):
    if st[0] == "=":
        return ["=", _place(st[1], lo), _rvalue(st[2], lo)] + st[3:]
    if st[0] == "setdiscr":
        return ["setdiscr", _place(st[1], lo)] + st[2:]
    return st


def _term(t, lo, bo):
    t = dict(t)
    k = t["k"]
    for key in ("t", "u", "o", "i", "drop"):
        if isinstance(t.get(key), int):
            t[key] = t[key] + bo
    if k == "switch":
        t["d"] = _operand(t["d"], lo)
        t["v"] = [[v, tb + bo] for v, tb in t["v"]]
    elif k in ("call", "tailcall"):
        t["args"] = [_operand(a, lo) for a in t["args"]]
        if t.get("dest") is not None:
            t["dest"] = _place(t["dest"], lo)
        if t.get("fnop"):
            t["fnop"] = _operand(t["fnop"], lo)
    elif k == "drop":
        t["p"] = _place(t["p"], lo)
    elif k == "assert":
        t["cond"] = _operand(t["cond"], lo)
        m = t["msg"]
        t["msg"] = [m[0]] + [(_operand(x, lo) if isinstance(x, list) and x and x[0] in ("c", "m", "k", "rt") else x) for x in m[1:]]
    elif k == "yield":
        t["v"] = _operand(t["v"], lo)
        t["p"] = _place(t["p"], lo)
    return t


# -- inlining --------------------------------------------------------------------

def _inlinable(F, caller, t, known, stack):
    if t["k"] != "call" or not t.get("fn") or t.get("t") is None or t.get("dest") is None:
        return None
    fn = t["fn"]
    if t.get("res") and t["res"] != fn:
        return None
    if t.get("trait"):
        return None
    cb = F.bodies.get(fn)
    if cb is None or cb is caller or cb.kind not in ("Fn", "AssocFn") or cb.is_coroutine:
        return None
    if nogen(fn) in known:
        return None
    if fn in stack or len(cb.blocks) > MAX_CALLEE_BLOCKS:
        return None
    if len(t["args"]) != cb.nargs:
        return None
    return cb


LINEAR = ("goto", "drop", "false", "falseunwind")


def _succ_linear(blk):
    t = blk["t"]
    if t["k"] in LINEAR and isinstance(t.get("t"), int):
        return t["t"]
    return None


def _variant_of_site(blk, ret_local):
    """Ok/Err/Some/None/True/False when the block's last write to the return
    place fixes the outcome, else None."""
    v = None
    for st in blk["s"]:
        if st[0] == "=" and st[1] == [ret_local]:
            rv = st[2]
            v = None
            if rv[0] == "agg" and rv[1][0] == "adt" and rv[1][1] in ("core::result::Result", "core::option::Option"):
                v = rv[1][2]
            elif rv[0] == "use" and rv[1][0] == "k" and rv[1][1] == "bool" and len(rv[1]) > 2 and rv[1][2] in (0, 1, True, False):
                v = "True" if rv[1][2] in (1, True) else "False"
    t = blk["t"]
    if t["k"] == "call" and t.get("dest") == [ret_local]:
        v = "Break" if (t.get("fn") or "").endswith("FromResidual::from_residual") else None
    return v


def _continuation(b, dest, target, variant):
    """If the caller immediately branches on the helper's result (`?`, match
    on Ok/Err/Some/None, `if helper()`), return (blocks to clone, successor
    chosen for this variant); else None."""
    if variant is None:
        return None
    chain = []
    cur = target
    subject = ("dest", dest)
    for _ in range(4):
        blk = b.blocks[cur]
        t = blk["t"]
        chain.append(cur)
        # discr(subject) ; switch
        discr_local = None
        for st in blk["s"]:
            if st[0] == "=" and st[2][0] == "discr" and len(st[1]) == 1:
                src = st[2][1]
                if subject[0] == "dest" and src == dest:
                    discr_local = (st[1][0], "adt")
                if subject[0] == "branch" and src == subject[1]:
                    discr_local = (st[1][0], "flow")
        if t["k"] == "switch" and t["d"][0] in ("c", "m"):
            d = t["d"][1]
            idx = None
            if discr_local and d == [discr_local[0]]:
                if discr_local[1] == "adt":
                    idx = {"Ok": 0, "Err": 1, "None": 0, "Some": 1, "Break": 1}.get(variant)
                    if variant == "Break":
                        idx = None  # Err or None: index differs per type
                else:
                    idx = {"Ok": 0, "Some": 0, "Err": 1, "None": 1, "Break": 1}.get(variant)
            elif subject[0] == "dest" and d == dest and variant in ("True", "False"):
                idx = 1 if variant == "True" else 0
            if idx is None:
                return None
            nxt = None
            for v, tb in t["v"]:
                if v == idx:
                    nxt = tb
            if nxt is None:
                nxt = t["o"]
            return chain, nxt
        if t["k"] == "call" and (t.get("fn") or "").endswith("Try::branch") and len(t["args"]) == 1 \
                and t["args"][0][0] in ("c", "m") and t["args"][0][1] == dest and subject[0] == "dest" \
                and isinstance(t.get("t"), int):
            subject = ("branch", t["dest"])
            cur = t["t"]
            continue
        nxt = _succ_linear(blk)
        if nxt is None:
            return None
        cur = nxt
    return None


def inline_body(F, b, known, depth=0, stack=()):
    """Return the number of call sites inlined into b (b is modified in place)."""
    n = 0
    bi = 0
    stack = stack + (b.path,)
    while bi < len(b.blocks):
        t = b.blocks[bi]["t"]
        cb = _inlinable(F, b, t, known, stack)
        if cb is None or depth >= MAX_DEPTH:
            bi += 1
            continue
        # callee may itself call new helpers: inline into a private copy first
        r = copy.deepcopy(cb.r)
        tmp = type(cb)(r)
        inline_body(F, tmp, known, depth + 1, stack)
        lo = len(b.locals)
        bo = len(b.blocks)
        # generic parameters of the helper: unify each parameter type with the type of the actual argument
        # (`&Data` against `&rdata::dnssec::Dnskey<bytes::Bytes>`), and rewrite the helper's local types and
        # the type arguments of its calls, so that rules that read types see what the caller passes
        subst = {}
        for i, a in enumerate(t["args"]):
            pty = tmp.locals[1 + i] if 1 + i < len(tmp.locals) else None
            aty = b.locals[a[1][0]] if a[0] in ("c", "m") and len(a[1]) == 1 and a[1][0] < len(b.locals) else None
            if not isinstance(pty, str) or not isinstance(aty, str):
                continue
            ps, as_ = pty, aty
            while True:
                m1 = re.match(r"^&(mut )?(.*)$", ps)
                m2 = re.match(r"^&(mut )?(.*)$", as_)
                if m1 and m2:
                    ps, as_ = m1.group(2), m2.group(2)
                    continue
                break
            if re.match(r"^[A-Z][A-Za-z0-9_]*$", ps) and ps != as_ and "::" in as_:
                subst.setdefault(ps, as_)
        def _sub(s):
            if not subst or not isinstance(s, str):
                return s
            for g, actual in subst.items():
                s = re.sub(r"(?<![A-Za-z0-9_:])%s(?![A-Za-z0-9_]|::)" % re.escape(g), lambda _m, _a=actual: _a, s)
            return s
        if subst:
            tmp.locals[:] = [_sub(x) for x in tmp.locals]
            for cblk in tmp.blocks:
                ct = cblk["t"]
                if ct.get("k") == "call" and ct.get("targs"):
                    ct["targs"] = [_sub(x) for x in ct["targs"]]
                    ct["gsubst"] = dict(subst)
        b.locals.extend(tmp.locals)
        for nme, pl in tmp.vars:
            b.vars.append([nme + "'", _place(pl, lo)])
        line = t.get("l", 0)
        # bind arguments
        blk = b.blocks[bi]
        for i, a in enumerate(t["args"]):
            blk["s"].append(["=", [lo + 1 + i], ["use", a], line, None])
        dest, target = t["dest"], t["t"]
        blk["t"] = {"k": "goto", "t": bo, "l": line, "x": t.get("x"), "inlined": cb.path}
        new_blocks = [{"s": [_stmt(s, lo) for s in cblk["s"]], "t": _term(cblk["t"], lo, bo)} for cblk in tmp.blocks]
        b.blocks.extend(new_blocks)

        def finish_ret(idx, variant):
            """turn the `return` in block idx into dest = _0 ; continue in the caller (threaded when the
            caller branches on the result right away and this site's outcome is known)"""
            rb = b.blocks[idx]
            rb["s"].append(["=", dest, ["use", ["m", [lo]]], rb["t"].get("l", line), None])
            cont = _continuation(b, dest, target, variant)
            if cont is None:
                rb["t"] = {"k": "goto", "t": target, "l": rb["t"].get("l", line), "x": None}
                return
            chain, nxt = cont
            first = len(b.blocks)
            for j, cbi in enumerate(chain):
                c = copy.deepcopy(b.blocks[cbi])
                last = j == len(chain) - 1
                if last:
                    c["t"] = {"k": "goto", "t": nxt, "l": c["t"].get("l", line), "x": None}
                else:
                    c["t"]["t"] = first + j + 1
                b.blocks.append(c)
            rb["t"] = {"k": "goto", "t": first, "l": rb["t"].get("l", line), "x": None}

        rets = [i for i in range(bo, bo + len(new_blocks)) if b.blocks[i]["t"]["k"] == "ret"]
        # outcome sites: blocks writing the return place whose way to `return` is a straight line
        threaded = set()
        for a in range(bo, bo + len(new_blocks)):
            v = _variant_of_site(b.blocks[a], lo)
            if v is None:
                continue
            ta = b.blocks[a]["t"]
            if ta["k"] == "ret":
                finish_ret(a, v)
                threaded.add(a)
                continue
            start = ta.get("t") if ta["k"] in LINEAR + ("call",) else None
            chain = []
            cur = start
            ok = False
            while isinstance(cur, int) and len(chain) < 10:
                chain.append(cur)
                if b.blocks[cur]["t"]["k"] == "ret":
                    ok = True
                    break
                if any(st[0] == "=" and st[1] == [lo] for st in b.blocks[cur]["s"]):
                    break
                cur = _succ_linear(b.blocks[cur])
            if not ok:
                continue
            # private copy of the tail for this outcome
            first = len(b.blocks)
            for j, cbi in enumerate(chain):
                c = copy.deepcopy(b.blocks[cbi])
                if j < len(chain) - 1:
                    c["t"]["t"] = first + j + 1
                b.blocks.append(c)
            ta["t"] = first
            finish_ret(first + len(chain) - 1, v)
        for rb in rets:
            if rb not in threaded:
                finish_ret(rb, None)
        n += 1
        bi += 1
    if n:
        b._defs = None
        b._preds = None
        b._dom = None
        b._reach = None
        for k in list(b.__dict__):
            if k.startswith("_") and k not in ("_defs", "_preds", "_dom", "_reach"):
                b.__dict__.pop(k)
    return n


def inline_unknown_helpers(F):
    """Inline calls to functions unknown to the rule tables, crate-wide.
    Returns {caller path: count}."""
    known = load_known()
    if known is None:
        return {}
    new = [p for p, b in F.bodies.items() if b.kind in ("Fn", "AssocFn") and nogen(p) not in known]
    F.unknown_fns = sorted(new)
    if not new:
        return {}
    newset = set(new)
    done = {}
    for p, b in list(F.bodies.items()):
        if any(t.get("fn") in newset for _, t in b.calls()):
            c = inline_body(F, b, known)
            if c:
                done[p] = c
    F._callers = None
    return done


if __name__ == "__main__":
    # regenerate known_fns.txt from the current tree (deliberate, manual step)
    import sys
    sys.path.insert(0, HERE)
    import extract
    import mirlib
    f, _, _ = extract.facts_file("all")
    F = mirlib.Facts(f, inline=False)
    ks = sorted({nogen(p) for p, b in F.bodies.items() if b.kind in ("Fn", "AssocFn")})
    with open(KNOWN_FILE, "w") as fh:
        fh.write("# function paths (generics stripped) that existed when the rule tables were written;\n"
                 "# calls to functions NOT listed here are analysed as if inlined (rules/inline.py)\n")
        for k in ks:
            fh.write(k + "\n")
    print("wrote %d paths" % len(ks))
