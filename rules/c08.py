"""C08 — zone answers (narrow, structural clauses only).

Which answer RFC 1034 4.3.2 / RFC 4592 prescribe for every zone content and
query, and independence from the update history, are statements about all
zone contents; they are not decided.  Decided is the finite decision table
of the read path — which kind of node state leads to which kind of answer —
and the constants of the answer constructors:

C08.here    at the queried name itself: a cut leads to query_at_cut, a CNAME
            marker to a CNAME answer, the NXDOMAIN marker to NXDOMAIN, an
            ordinary node to the RRset lookup.
C08.below   on the way down: a cut yields a referral (NS, DS, glue) and no
            descent; CNAME-marked, ordinary *and NXDOMAIN-marked* nodes
            descend into their children (the marker is maintained from the
            node's own RRsets only, so it also sits on empty non-terminals).
C08.cut     at a cut, DS is answered from the parent side (data or NODATA);
            every other type gets the referral.
C08.wild    children are searched for the exact label first; only without one
            is the wildcard child used, answered as the name itself (never
            descended); without a wildcard the answer is NXDOMAIN.
C08.rrsets  a present RRset of the queried type is data, an absent one NODATA.
C08.ctor    NODATA and NXDOMAIN answers ask for the SOA, data / CNAME /
            referral answers do not; NXDOMAIN carries RCODE NXDOMAIN, the
            others NOERROR; a referral is not authoritative; into_answer adds
            the apex SOA exactly when asked.
C08.any     for QTYPE ANY the RRset is chosen among those *present at the
            reader's version*: the version lookup is applied while iterating
            over the node's types (loop, find_map, filter_map ...), not to the
            first map entry only -- an entry that belongs to another version
            (an uncommitted writer's, a removed one) must not turn the answer
            into NODATA.
C08.auth    Answer::to_message writes every part of the authority section
            (SOA, NS, DS) that is present, independently of the others, and
            both parts of the additional section: a referral for a signed
            delegation carries NS *and* DS.
C08.nx      the predicate the write path sets the NXDOMAIN marker from,
            NodeRrsets::is_empty(version), is "no RRset is present at that
            version": it answers false only under a witnessed present RRset
            and true only when none was seen (quantifier shape decided for
            loops and for any/all/find with is_some/is_none; other shapes are
            reported undecided, not as violations).
"""
import re

from mirlib import BranchFacts, closures_created_in, strip, deep_strip, show, walk, const_value
from rulelib import bool_facts, facts_at, return_assignments, must_pass, fmt_path

RZ = r"^zonetree::in_memory::read::ReadZone::"
IGN = {"clone", "deref", "as_ref", "drop", "branch", "from_residual", "cloned", "new", "into_iter", "next", "iter", "get",
       "enabled", "children", "rrsets", "ttl", "data", "name", "as_deref"}


def run(ctx):
    F = ctx.facts
    ctx.extra["explanation"] = (
        "C08 (narrow): the arm tables of the zone read path (node state x position -> kind of answer), the DS "
        "exception at a cut, exact-before-wildcard child lookup, and the constants of the NodeAnswer constructors. "
        "Correctness of the answer for every zone content, wildcard applicability (closest encloser), empty "
        "non-terminals and independence from the update history are not decided."
    )
    rule_here(ctx, F)
    rule_below(ctx, F)
    rule_cut(ctx, F)
    rule_wild(ctx, F)
    rule_rrsets(ctx, F)
    rule_ctor(ctx, F)
    rule_auth(ctx, F)
    rule_nx(ctx, F)
    rule_any(ctx, F)
    rule_wipe(ctx, F)
    rule_mark(ctx, F)
    import c09
    c09.rule_shared(ctx, F)       # node existence must be version-scoped, or an abandoned writer changes answers (shared with C09)
    import c10
    c10.rule_keepttl(ctx, F)      # history independence: a deletion does not touch the other records' TTL
    # the answer depends on the current records only if the versioned containers mask, restore and roll back correctly
    import c09
    c09.rule_ver(ctx, F)
    c09.rule_get(ctx, F)
    c09.rule_rbk(ctx, F)
    c09.rule_drop(ctx, F)    # an abandoned writer leaves nothing behind
    rule_emptyset(ctx, F)
    rule_inzone(ctx, F)
    rule_glueall(ctx, F)


def _one(F, rx):
    bs = [b for p, b in F.bodies.items() if re.search(rx, p) and "::test" not in p]
    return bs[0] if len(bs) == 1 else None


def _arms(b, F, only_non_walk=False):
    """{variant: set(callee last segments reachable from that match arm)} over all variant switches of b"""
    out = {}
    bf = BranchFacts(b, F)
    for sw in sorted(b.reachable_blocks()):
        t = b.blocks[sw]["t"]
        if t["k"] != "switch":
            continue
        for lab, (tt, vv) in bf.edge_facts(sw).items():
            if not (isinstance(vv, tuple) and vv[0] == "variant"):
                continue
            tgt = b.edge_target(sw, lab)
            removed = set()
            if only_non_walk:
                # cut off the branches taken when walking the whole zone (walk.enabled() is true)
                for s2 in b.reachable_blocks():
                    t2 = b.blocks[s2]["t"]
                    if t2["k"] == "switch":
                        d = deep_strip(b.term_of_operand(t2["d"]))
                        if d[0] == "call" and (d[1] or "").endswith("WalkState::enabled"):
                            for s3, l3 in b.succs(s2):
                                ef = bf.edge_facts(s2).get(l3)
                                if ef and ef[1] is True:
                                    removed.add(s3)
            r = b.reach_from(tgt, removed_blocks=removed) if tgt not in removed else set()
            cs = {(b.blocks[x]["t"]["fn"] or "").split("::")[-1] for x in r if b.blocks[x]["t"]["k"] == "call"}
            out.setdefault(vv[1], set()).update(cs - IGN)
    return out


def _check_arms(ctx, R, b, arms, table, what):
    distinctive = set()
    for v, (must, _) in table.items():
        distinctive |= set(must)
    for v, (must, why) in table.items():
        got = arms.get(v, set())
        others = (distinctive - set(must)) & got
        ctx.ob(R, b, "%s: %s -> %s" % (what, v, "/".join(must) if must else "nothing further"), set(must) <= got and not others,
               "%s: the %s arm %s (calls found: %s): %s"
               % (what, v, ("also reaches %s" % sorted(others)) if set(must) <= got else ("does not reach %s" % sorted(set(must) - got)),
                  sorted(got)[:8], why))


def rule_here(ctx, F):
    R = "C08.here"
    ctx.floor(R, 4)
    b = _one(F, RZ + r"query_node_here_but_not_below::\{closure#0\}$")
    if not ctx.anchor(R, "query_node_here_but_not_below (match on the node's special state)", b):
        return
    arms = _arms(b, F)
    table = {
        "Cut": (["query_at_cut"], "a query for a delegation point itself must be answered by the cut logic (referral, or DS from the parent side)"),
        "Cname": (["cname"], "a name holding a CNAME answers with the CNAME"),
        "NxDomain": (["nx_domain"], "a name marked as non-existent answers NXDOMAIN"),
        "None": (["query_rrsets"], "an ordinary name answers from its RRsets (data or NODATA)"),
    }
    _check_arms(ctx, R, b, arms, table, "at the queried name")


def rule_below(ctx, F):
    R = "C08.below"
    ctx.floor(R, 4)
    b = _one(F, RZ + r"query_node_here_and_below::\{closure#0\}$")
    if not ctx.anchor(R, "query_node_here_and_below (match on the node's special state)", b):
        return
    arms = _arms(b, F, only_non_walk=True)
    table = {
        "Cut": (["authority"], "names below a delegation are answered with the referral, never by descending into occluded data"),
        "NxDomain": (["query_children"], "the marker only says that the node itself owns no records (write.rs check_nx_domain sets "
                                         "it from the node's own RRsets): names below it are decided by its children -- an empty "
                                         "non-terminal has descendants with data, and walk() does descend"),
        "Cname": (["query_children"], "a CNAME at an intermediate name does not stop the descent"),
        "None": (["query_children"], "ordinary intermediate names descend into their children"),
    }
    _check_arms(ctx, R, b, arms, table, "on the way down")
    # the referral carries NS, DS and glue of the cut
    ok = False
    for bb, t in b.calls():
        if re.search(r"answer::AnswerAuthority::new$", t["fn"] or "") and len(t["args"]) >= 4:
            a = [show(deep_strip(b.term_of_operand(x))) for x in t["args"]]
            ok = ".ns" in a[2] and ".ds" in a[3] and "None" in a[1]
    glue = any(re.search(r"AnswerAdditional::new$", t["fn"] or "") and ".glue" in show(deep_strip(b.term_of_operand(t["args"][0])))
               for bb, t in b.calls())
    ctx.ob(R, b, "referral = NS + DS of the cut, no SOA, glue as additional", ok and glue,
           "the referral built below a cut is not AnswerAuthority(cut.name, no SOA, cut.ns, cut.ds) with cut.glue as additional")


def rule_cut(ctx, F):
    R = "C08.cut"
    ctx.floor(R, 3)
    b = _one(F, RZ + r"query_at_cut$")
    if not ctx.anchor(R, "ReadZone::query_at_cut", b):
        return
    ds_sw = None
    for sw in b.reachable_blocks():
        t = b.blocks[sw]["t"]
        if t["k"] == "switch" and t["ty"] == "u16" and [v for v, _ in t["v"]] == [43]:
            ds_sw = sw
    if not ctx.anchor(R, "match on qtype == DS in query_at_cut", ds_sw is not None, b.where()):
        return
    t = b.blocks[ds_sw]["t"]
    ds_t, other_t = t["v"][0][1], t["o"]

    def calls_from(x):
        return {(b.blocks[y]["t"]["fn"] or "").split("::")[-1] for y in b.reach_from(x) if b.blocks[y]["t"]["k"] == "call"}
    dsc, oc = calls_from(ds_t), calls_from(other_t)
    ctx.ob(R, b, "DS at a cut is answered from the parent side (data or NODATA)", {"data", "no_data"} <= dsc and "authority" not in dsc,
           "a DS query at a delegation point must be answered with the parent-side DS RRset or NODATA, not a referral (calls: %s)" % sorted(dsc - IGN))
    ctx.ob(R, b, "every other type at a cut gets the referral", "authority" in oc and not ({"data", "no_data"} & oc),
           "a non-DS query at a delegation point must be a referral (calls: %s)" % sorted(oc - IGN))
    dsa = [show(deep_strip(b.term_of_operand(tt["args"][0]))) for bb, tt in b.calls() if (tt["fn"] or "").endswith("NodeAnswer::data")]
    ctx.ob(R, b, "the DS answer is the cut's DS RRset", any(".ds" in s for s in dsa),
           "query_at_cut answers DS with something other than cut.ds")


def rule_wild(ctx, F):
    R = "C08.wild"
    ctx.floor(R, 3)
    b = _one(F, RZ + r"query_children$")
    if not ctx.anchor(R, "ReadZone::query_children", b):
        return
    withs = [(bb, t) for bb, t in b.calls() if re.search(r"NodeChildren::with$", t["fn"] or "")]
    if not ctx.anchor(R, "two child lookups (exact label, wildcard) in query_children", len(withs) == 2, b.where()):
        return
    exact = [(bb, t) for bb, t in withs if not any(s[0] == "call" and (s[1] or "").endswith("Label::wildcard") for s in walk(b.term_of_operand(t["args"][1])))]
    wild = [(bb, t) for bb, t in withs if (bb, t) not in exact]
    ok = len(exact) == 1 and len(wild) == 1 and b.dominates(exact[0][0], wild[0][0])
    ctx.ob(R, b, "the exact child is looked up before the wildcard child", ok,
           "query_children does not search the exact label first and the wildcard label second")
    if ok:
        # the wildcard lookup only when the exact one gave nothing
        fs = facts_at(b, wild[0][0], F)
        none = any(isinstance(vv, tuple) and vv == ("variant", "None") for tt, vv, e in fs)
        ctx.ob(R, b, "the wildcard is used only when no exact child exists", none,
               "the wildcard child is consulted although an exact child produced an answer")
    # the wildcard closure: Some -> answered as the name itself; None -> NXDOMAIN
    wc = None
    if wild:
        for a in wild[0][1]["args"]:
            for s in walk(b.term_of_operand(a)):
                if s[0] == "agg" and s[1][0] == "closure":
                    wc = F.bodies.get(s[1][1])
    if ctx.anchor(R, "wildcard fallback closure", wc):
        arms = _arms(wc, F)
        table = {
            "Some": (["query_node_here_but_not_below"], "a wildcard match answers for the wildcard node itself and never descends below it"),
            "None": (["nx_domain"], "no exact child and no wildcard child means the name does not exist"),
        }
        _check_arms(ctx, R, wc, arms, table, "wildcard fallback")
        ctx.ob(R, wc, "wildcard fallback never descends", "query_node" not in arms.get("Some", set()) and "query_children" not in arms.get("Some", set()),
               "the wildcard fallback descends below the wildcard node")


def rule_rrsets(ctx, F):
    R = "C08.rrsets"
    ctx.floor(R, 2)
    b = _one(F, RZ + r"query_rrsets$")
    if not ctx.anchor(R, "ReadZone::query_rrsets", b):
        return
    gets = [(bb, t) for bb, t in b.calls() if re.search(r"NodeRrsets::get$", t["fn"] or "")]
    ok = False
    for bb, t in gets:
        q = deep_strip(b.term_of_operand(t["args"][1]))
        ok = q == ("arg", 3)
    ctx.ob(R, b, "the RRset looked up is the one of the queried type", ok,
           "query_rrsets does not look up rrsets.get(qtype, version) with the query's own type")
    datas = [bb for bb, t in b.calls() if (t["fn"] or "").endswith("NodeAnswer::data")]
    nod = [bb for bb, t in b.calls() if (t["fn"] or "").endswith("NodeAnswer::no_data")]
    ok2 = False
    for d in datas:
        if any(isinstance(vv, tuple) and vv == ("variant", "Some") and any(s[0] == "call" and s[5] in [g[0] for g in gets] for s in walk(tt))
               for tt, vv, e in facts_at(b, d, F)):
            ok2 = True
    ok3 = any(any(isinstance(vv, tuple) and vv == ("variant", "None") and any(s[0] == "call" and s[5] in [g[0] for g in gets] for s in walk(tt))
                  for tt, vv, e in facts_at(b, n, F)) for n in nod)
    ctx.ob(R, b, "present RRset -> data, absent RRset -> NODATA", ok2 and ok3,
           "query_rrsets does not answer `data` exactly when the RRset of the queried type exists and NODATA when it does not")


def rule_ctor(ctx, F):
    R = "C08.ctor"
    ctx.floor(R, 6)
    NA = r"^zonetree::in_memory::read::NodeAnswer::"
    rc = {}
    for p, c in F.consts.items():
        m = re.match(r"^base::iana::rcode::Rcode::([A-Z]+)$", p)
        if m and isinstance(c.get("value"), int):
            rc[m.group(1)] = c["value"]
    want = {
        "data": ("NOERROR", False, True),
        "no_data": ("NOERROR", True, True),
        "cname": ("NOERROR", False, True),
        "nx_domain": ("NXDOMAIN", True, True),
        "authority": ("NOERROR", False, False),
    }
    for fn, (rcode, soa, auth) in want.items():
        b = _one(F, NA + fn + "$")
        if not ctx.anchor(R, "NodeAnswer::%s" % fn, b):
            continue
        got_rc = None
        for bb, t in b.calls():
            if re.search(r"answer::Answer::(new|with_authority)$", t["fn"] or ""):
                v = b.term_of_operand(t["args"][0])
                cv = const_value(v)
                s = show(deep_strip(v))
                for name, val in rc.items():
                    if cv == val or ("Rcode::%s" % name) in s:
                        got_rc = name
        fields = {}
        for blk in b.blocks:
            for st in blk["s"]:
                if st[0] == "=" and st[2][0] == "agg" and st[2][1][0] == "adt" and st[2][1][1].endswith("read::NodeAnswer"):
                    for nmf, o in zip(st[2][1][3], st[2][2]):
                        fields[nmf] = const_value(b.term_of_operand(o))
        ok = got_rc == rcode and fields.get("add_soa") in ((1, True) if soa else (0, False)) and \
            fields.get("authoritative") in ((1, True) if auth else (0, False))
        ctx.ob(R, b, "NodeAnswer::%s = (%s, SOA %s, authoritative %s)" % (fn, rcode, soa, auth), ok,
               "NodeAnswer::%s builds (rcode %s, add_soa %s, authoritative %s): negative answers must carry the SOA and the "
               "right RCODE, referrals are not authoritative" % (fn, got_rc, fields.get("add_soa"), fields.get("authoritative")))
    b = _one(F, NA + r"into_answer$")
    if ctx.anchor(R, "NodeAnswer::into_answer", b):
        sets = [bb for bb, t in b.calls() if re.search(r"Answer::set_authority$", t["fn"] or "")]
        ok = bool(sets) and all(any(tt[0] == "field" and tt[2] == "add_soa" and vv is True for tt, vv in bool_facts(b, s, F)) for s in sets)
        soa = any(re.search(r"ZoneApex::get_soa$", t["fn"] or "") for bb, t in b.calls())
        ctx.ob(R, b, "the apex SOA is added exactly when the answer asks for it", ok and soa,
               "into_answer does not add the apex SOA under `add_soa` (and only then)")
        sa = [t for bb, t in b.calls() if re.search(r"Answer::set_authoritative$", t["fn"] or "")]
        ok = any(show(deep_strip(b.term_of_operand(t["args"][1]))).endswith(".authoritative") for t in sa)
        ctx.ob(R, b, "the AA flag is the answer's own authoritative flag", ok,
               "into_answer does not pass self.authoritative to set_authoritative", nontrivial=False)


# ---------------------------------------------------------------------------
# Answer::to_message: the parts of the authority section are independent
# ---------------------------------------------------------------------------

def rule_auth(ctx, F):
    R = "C08.auth"
    ctx.floor(R, 5)
    bs = [b for p, b in F.bodies.items() if re.match(r"^zonetree::answer::Answer::to_message(::<.*>)?$", p)]
    if not ctx.anchor(R, "Answer::to_message", len(bs) == 1):
        return
    b = bs[0]
    adt = F.adts.get("zonetree::answer::AnswerAuthority")
    if not ctx.anchor(R, "struct AnswerAuthority", adt is not None):
        return
    bf = BranchFacts(b, F)
    tests = {}      # field -> (switch, present label)
    for sw in sorted(b.reachable_blocks()):
        if b.blocks[sw]["t"]["k"] != "switch":
            continue
        for lab, (tt, v) in bf.edge_facts(sw).items():
            if v != ("variant", "Some"):
                continue
            s = show(deep_strip(tt))
            m = re.search(r"\.authority\b.*\.(\w+)\)?$", s)
            if m and "next(" not in s:
                tests.setdefault(m.group(1), (sw, lab))
    fields = sorted(tests)
    ctx.ob(R, b, "the authority parts tested", {"soa", "ns", "ds"} <= set(fields),
           "Answer::to_message no longer tests all of soa / ns / ds of the AnswerAuthority (found: %s)" % fields)
    for f in fields:
        sw, lab = tests[f]
        r = b.reach_from(b.edge_target(sw, lab))
        pushes = [x for x in r if b.blocks[x]["t"]["k"] == "call" and re.search(r"AuthorityBuilder::<.*>::push", b.blocks[x]["t"]["fn"] or "")]
        ctx.ob(R, b, "%s, when present, is pushed into the authority section" % f, bool(pushes),
               "no AuthorityBuilder::push is reached when authority.%s is present" % f)
        for g in fields:
            if g == f:
                continue
            gsw, _ = tests[g]
            if sw not in b.reach_from(gsw) or gsw == sw:
                continue
            miss = [l for s_, l in b.succs(gsw) if sw not in b.reach_from(s_) and s_ != sw
                    and not (bf.edge_facts(gsw).get(l, (None, None))[1] or ("",))[0] == "notvariant"]
            ctx.ob(R, b, "%s is written whether or not %s is present" % (f, g), not miss,
                   "Answer::to_message looks at authority.%s only on one outcome of the test of authority.%s: "
                   "a referral for a signed delegation (NS and DS both present) loses one of the two RRsets" % (f, g),
                   b.where(sw))


# ---------------------------------------------------------------------------
# NodeRrsets::is_empty: the predicate behind the NXDOMAIN marker
# ---------------------------------------------------------------------------

def _presence(t):
    """+1 if the bool term means "an RRset is present at the version", -1 for "absent", 0 if unrelated"""
    t = deep_strip(t)
    neg = 1
    while t[0] == "un" and t[1] == "Not":
        neg = -neg
        t = deep_strip(t[2])
    if t[0] == "call" and t[1] and t[3]:
        last = t[1].split("::")[-1]
        inner = show(deep_strip(t[3][0]))
        if last in ("is_some", "is_none") and re.search(r"NodeRrset::get\(", inner):
            return neg * (1 if last == "is_some" else -1)
    return 0


def rule_nx(ctx, F):
    R = "C08.nx"
    ctx.floor(R, 2)
    b = _one(F, r"^zonetree::in_memory::nodes::NodeRrsets::is_empty$")
    if not ctx.anchor(R, "NodeRrsets::is_empty", b):
        return
    callers = [p for p, c in F.bodies.items() if "check_nx_domain" in p and any((t["fn"] or "").endswith("NodeRrsets::is_empty") for _, t in c.calls())]
    ctx.ob(R, b, "check_nx_domain decides the NXDOMAIN marker with is_empty", bool(callers),
           "WriteNode::check_nx_domain no longer consults NodeRrsets::is_empty", nontrivial=False)
    n_true = n_false = 0
    undec = False
    for bi, si, kind, term in return_assignments(b):
        if term is None and kind.startswith("call:"):
            term = b._term_of_def(("call", bi, b.blocks[bi]["t"]), 0, frozenset())
        facts = facts_at(b, bi, F)
        pres = [(_presence(tt) * (1 if v else -1)) for tt, v, _ in facts if isinstance(v, bool) and _presence(tt)]
        witnessed = any(x > 0 for x in pres)
        if kind == "false":
            n_false += 1
            ctx.ob(R, b, "`false` #%d is returned under a present RRset" % n_false, witnessed,
                   "NodeRrsets::is_empty returns false (not empty) on a path where no RRset was seen to be present at the "
                   "version: a name without data at this version keeps answering NOERROR / loses its NXDOMAIN marker",
                   b.where(bi))
        elif kind == "true":
            n_true += 1
            ctx.ob(R, b, "`true` #%d is not returned under a present RRset" % n_true, not witnessed,
                   "NodeRrsets::is_empty returns true (empty) on a path where an RRset was just found present at the "
                   "version: a name that owns data gets the NXDOMAIN marker", b.where(bi))
        else:
            # iterator-combinator form: [!] values().any|all|find(closure)
            verdict = _combinator_verdict(b, F, term)
            if verdict is None:
                undec = True
                ctx.undecided_item(R, "NodeRrsets::is_empty", "return value of an unrecognised shape: %s" % (show(term)[:120] if term else kind))
                continue
            n_true += 1
            n_false += 1
            ctx.ob(R, b, "combinator form means `no RRset is present`", verdict is True,
                   "NodeRrsets::is_empty computes %s, which is not `no RRset is present at the version`: a name that still "
                   "owns an RRset gets the NXDOMAIN marker (or an empty one keeps answering NOERROR)" % verdict, b.where(bi))
    if undec:
        return
    ctx.ob(R, b, "both answers are possible", n_true > 0 and n_false > 0,
           "NodeRrsets::is_empty can no longer return both true and false", nontrivial=False)


def _combinator_verdict(b, F, term):
    """True if the term is a spelling of `forall v: not present(v)`; a description of what it computes if it is a
    different quantifier; None if not understood."""
    if term is None:
        return None
    t = deep_strip(term)
    neg = False
    while t[0] == "un" and t[1] == "Not":
        neg = not neg
        t = deep_strip(t[2])
    post = None
    if t[0] == "call" and t[1] and t[1].split("::")[-1] in ("is_none", "is_some") and t[3]:
        post = t[1].split("::")[-1]
        t = deep_strip(t[3][0])
    if t[0] != "call" or not t[1]:
        return None
    comb = t[1].split("::")[-1]
    if comb not in ("any", "all", "find", "position"):
        return None
    if "values(" not in show(t) and "iter(" not in show(t):
        return None
    pol = None
    for _bi, cb, _caps in closures_created_in(F, b):
        for bi, si, kind, ct in return_assignments(cb):
            if ct is None and kind.startswith("call:"):
                ct = cb._term_of_def(("call", bi, cb.blocks[bi]["t"]), 0, frozenset())
            if ct is not None and _presence(ct):
                pol = _presence(ct)
    if pol is None:
        return None
    if comb in ("find", "position"):
        if post is None:
            return None
        # find(present).is_none()  ==  not any(present)
        exists = (post == "is_some")
        val = ("any", pol, exists != neg and True)
        some_present = pol > 0
        is_true_when_no_present = (post == "is_none") != neg
        return True if (some_present and is_true_when_no_present) else "`%s%s(%s).%s()`" % ("!" if neg else "", comb, "present" if pol > 0 else "absent", post)
    if comb == "any":
        ok = (pol > 0 and neg)            # !any(present)
    else:
        ok = (pol < 0 and not neg)        # all(absent)
    return True if ok else "`%s%s(|v| %s)`" % ("!" if neg else "", comb, "v is present" if pol > 0 else "v is absent")


# ---------------------------------------------------------------------------
# QTYPE ANY picks among the RRsets present at the version
# ---------------------------------------------------------------------------

def rule_any(ctx, F):
    R = "C08.any"
    ctx.floor(R, 1)
    b = _one(F, RZ + r"query_rrsets$")
    if not ctx.anchor(R, "ReadZone::query_rrsets", b):
        return
    bf = BranchFacts(b, F)
    arm = None
    for sw in sorted(b.reachable_blocks()):
        if b.blocks[sw]["t"]["k"] != "switch":
            continue
        for lab, (tt, v) in bf.edge_facts(sw).items():
            s = deep_strip(tt)
            if v is True and s[0] == "call" and re.search(r"::eq$", s[1] or "") and any(const_value(deep_strip(a)) == 255 for a in s[3]):
                arm = b.edge_target(sw, lab)
            if v is True and s[0] == "bin" and s[1] == "Eq" and 255 in (const_value(deep_strip(s[2])), const_value(deep_strip(s[3]))):
                arm = b.edge_target(sw, lab)
    if not ctx.anchor(R, "the QTYPE ANY arm of query_rrsets", arm is not None, b.where()):
        return
    from rulelib import cyclic_blocks
    blocks = b.reach_from(arm)
    cyc = cyclic_blocks(b)
    sites = []
    for bb, t in b.calls():
        if bb in blocks and re.search(r"NodeRrset::get$", t["fn"] or ""):
            el = deep_strip(b.term_of_operand(t["args"][0]))
            nxt = [s for s in walk(el) if s[0] == "call" and re.search(r"Iterator>?::next$", s[1] or "")]
            sites.append(("loop" if nxt and nxt[0][5] in cyc else "first entry only", b.where(bb)))
    for bi, cb, ops in closures_created_in(F, b):
        if bi not in blocks:
            continue
        if not any(re.search(r"NodeRrset::get$", t["fn"] or "") for _, t in cb.calls()):
            continue
        # which combinator takes this closure?
        comb = None
        for bb, t in b.calls():
            for a in t["args"]:
                s = deep_strip(b.term_of_operand(a))
                if s[0] == "agg" and s[1][0] == "closure" and s[1][1] == cb.path:
                    comb = t["fn"] or ""
        it = comb is not None and re.search(r"(^|[<:])core::iter::|Iterator>?::", comb) is not None
        sites.append(("iterator combinator " + comb.split("::")[-1] if it else "applied to one element (%s)" % (comb or "?").split("::")[-1],
                      b.where(bi)))
    if not ctx.anchor(R, "version lookup in the ANY arm", bool(sites), b.where(arm)):
        return
    for n, (how, where) in enumerate(sites):
        ok = how == "loop" or how.startswith("iterator combinator")
        ctx.ob(R, b, "ANY: version lookup #%d ranges over the node's types" % (n + 1), ok,
               "for QTYPE ANY query_rrsets looks at the first entry of the node's type map only (%s) and answers NODATA when "
               "that entry has no RRset at the reader's version: an RRset type added by an uncommitted writer (or removed "
               "in a later version) changes a held reader's answer, depending on hash order" % how, where)


# ---------------------------------------------------------------------------
# C08.wipe / C08.mark: the write path keeps the marker and the subtree apart
# ---------------------------------------------------------------------------

def rule_wipe(ctx, F):
    """`ZoneNode::remove_all(version)` -- what a full replacement of the zone calls on every node -- removes the node's RRsets,
    its special marker and (recursively) its children on *every* path: the NXDOMAIN marker describes the node's own RRsets
    only, a node that carries it can still have children (an empty non-terminal)."""
    R = "C08.wipe"
    ctx.floor(R, 3)
    b = _one(F, r"^zonetree::in_memory::nodes::ZoneNode::remove_all$")
    if not ctx.anchor(R, "ZoneNode::remove_all", b):
        return
    from rulelib import must_pass
    rets = b.return_blocks()
    for what, rx in (("the node's RRsets", r"NodeRrsets::remove_all$"), ("the special marker", r"Versioned::<.*>::remove$|Versioned::remove$"),
                     ("the children", r"NodeChildren::remove_all$")):
        sites = [bb for bb, tt in b.calls() if re.search(rx, tt["fn"] or "")]
        ok = bool(sites) and all(must_pass(b, 0, [r], sites)[0] for r in rets)
        ctx.ob(R, b, "remove_all always removes %s" % what, ok,
               "ZoneNode::remove_all can return without removing %s (an early exit, e.g. for a node that already carries the "
               "NXDOMAIN marker): records below an empty non-terminal survive a full replacement of the zone and are answered "
               "next to the new ones" % what)


def rule_mark(ctx, F):
    """check_nx_domain sets or clears the NXDOMAIN marker only for a node that has no marker or the NXDOMAIN marker; a cut or
    CNAME marker is left alone when an RRset is stored at its owner."""
    R = "C08.mark"
    ctx.floor(R, 2)
    bs = [b for p, b in F.bodies.items() if re.match(r"^zonetree::in_memory::write::WriteNode::check_nx_domain::\{closure#0\}$", p)]
    if not ctx.anchor(R, "WriteNode::check_nx_domain closure", len(bs) == 1):
        return
    b = bs[0]
    n = 0
    for bi in sorted(b.reachable_blocks()):
        if b.blocks[bi].get("c"):
            continue
        for st in b.blocks[bi]["s"]:
            if st[0] == "=" and st[1] == [0] and st[2][0] == "agg" and st[2][1][0] == "adt" and st[2][1][1] == "core::option::Option" and st[2][1][2] == "Some":
                n += 1
                kinds = set()
                for tm, v, _e in facts_at(b, bi, F):
                    if isinstance(v, tuple) and v[0] == "variant":
                        kinds.add(v[1])
                    if isinstance(v, tuple) and v[0] == "notvariant":
                        kinds.add("not:" + ",".join(map(str, v[1])))
                ok = ("None" in kinds) or ("NxDomain" in kinds)
                ctx.ob(R, b, "marker decision #%d is taken only for an unmarked or NXDOMAIN-marked node" % n, ok,
                       "check_nx_domain decides to set / clear the NXDOMAIN marker for a node whose marker is something else (the "
                       "arm is not restricted to `None` / `Some(NxDomain)`): storing an RRset at the owner of a zone cut or a CNAME "
                       "wipes that marker, and the delegation is answered authoritatively instead of with a referral",
                       b.where(bi), detail="variant facts: %s" % sorted(kinds))


def rule_emptyset(ctx, F):
    """An RRset without records is no RRset: NodeRrsets::update with an empty RRset removes the type (the removal leaves
    a marker for held readers), it does not store the empty set -- a stored empty set makes the name look like it owns
    the type, no NXDOMAIN marker is computed and the negative answer goes out without SOA."""
    R = "C08.emptyset"
    ctx.floor(R, 1)
    b = F.one_body(r"^zonetree::in_memory::nodes::NodeRrsets::update$")
    if not ctx.anchor(R, "NodeRrsets::update", b):
        return
    stores = [bb for bb, t in b.calls() if re.search(r"versioned::Versioned::<.*>::update$|nodes::NodeRrset::update$", t["fn"] or "")]
    removes = [bb for bb, t in b.calls() if re.search(r"NodeRrsets::remove_rtype$|Versioned::<.*>::remove$", t["fn"] or "")]
    if not ctx.anchor(R, "the store (Versioned::update) in NodeRrsets::update", len(stores) >= 1, b.where()):
        return
    for sb in stores:
        nonempty = any(("is_empty(" in show(tm) and v is False) for tm, v in bool_facts(b, sb, F))
        ctx.ob(R, b, "only a non-empty RRset is stored", nonempty and bool(removes),
               "NodeRrsets::update stores the RRset without having found it non-empty (and %s): replacing an RRset by an empty one "
               "leaves an empty set in place -- the name answers NOERROR without SOA instead of NXDOMAIN / NODATA with it"
               % ("removes the type otherwise" if removes else "never removes the type"), b.where(sb))


def rule_inzone(ctx, F):
    """Whether a name lies in the zone is decided label by label with Label's own equality (ASCII case-insensitive), like
    the lookups below the apex: util::rel_name_rev_iter compares the apex labels as `Label`s, never as raw octets."""
    R = "C08.inzone"
    ctx.floor(R, 1)
    b = F.one_body(r"^zonetree::util::rel_name_rev_iter(::<.*>)?$")
    if not ctx.anchor(R, "zonetree::util::rel_name_rev_iter", b):
        return
    cmps = [(bb, t) for bb, t in b.calls() if re.search(r"PartialEq(<.*>)?::(eq|ne)$", t["fn"] or "")]
    if not ctx.anchor(R, "label comparison in rel_name_rev_iter", len(cmps) >= 1, b.where()):
        return
    for bb, t in cmps:
        tys = " ".join(t["targs"] or [])
        ok = "name::label::Label" in tys and "[u8]" not in tys
        ctx.ob(R, b, "apex labels are compared as labels", ok,
               "rel_name_rev_iter compares %s: octet-wise comparison is case-sensitive, so `www.EXAMPLE.` is out of zone for the "
               "apex `example.` although every lookup below the apex ignores case" % (tys[:120] or "?"), b.where(bb))


def rule_glueall(ctx, F):
    """A referral carries the in-zone addresses of *every* name server of the delegation, wherever in the zone its name
    lies (a sibling name server's glue is as necessary as one below the cut).  In the zone builder's cut loop every NS
    record of the cut reaches `collect_glue`: from the `ZoneRecordData::Ns` edge there is no way back to the loop head
    (or on) around the call."""
    R = "C08.glueall"
    ctx.floor(R, 1)
    b = F.one_body(r"^zonetree::parsed::<impl core::convert::TryFrom<zonetree::parsed::Zonefile> for zonetree::in_memory::builder::ZoneBuilder>::try_from$")
    if not ctx.anchor(R, "ZoneBuilder::try_from(Zonefile)", b):
        return
    glue = [bb for bb, t in b.calls() if re.search(r"Owners::<.*>::collect_glue$", t["fn"] or "")]
    bf = BranchFacts(b, F)
    edges = []
    for sw in sorted(b.reachable_blocks()):
        if b.blocks[sw]["t"]["k"] != "switch":
            continue
        for lab, (tm, v) in bf.edge_facts(sw).items():
            if v == ("variant", "Ns"):
                edges.append((sw, lab))
    if not ctx.anchor(R, "collect_glue call and the Ns arm of the cut loop", len(glue) >= 1 and len(edges) >= 1, b.where()):
        return
    for sw, lab in edges:
        tgt = b.edge_target(sw, lab)
        # everything the Ns arm can reach without the call: the loop head (next iteration) or the function's exits
        heads = {bb for bb, t in b.calls() if (t["fn"] or "").endswith("Iterator::next") and b.dominates(bb, sw)}
        ok, pth = must_pass(b, tgt, heads | set(b.return_blocks()), glue)
        ctx.ob(R, b, "every NS record of a cut has its name server's in-zone addresses collected", ok,
               "ZoneBuilder::try_from skips collect_glue for some NS records of a zone cut (bypass %s): a name server that is in the "
               "zone but, say, not below the delegation point loses its glue, and the referral cannot be followed"
               % fmt_path(pth), b.where(sw))
