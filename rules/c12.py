"""C12 — DNSSEC signing / verification agreement (narrow, structural).

C12.sig     the octets the signer signs and the octets the validator
            rebuilds have the same layout: RRSIG RDATA head fields in the same
            order with the same codecs (signer name lower-cased), then per RR:
            owner in canonical (lower-cased) form on every branch, type, class,
            original TTL, canonical length-prefixed RDATA.
C12.sort    both sides order the RRs by canonical_cmp of the record data.
C12.digest  the DS digest input is the *canonical* owner name followed by the
            canonical DNSKEY RDATA (RFC 4034 5.1.4).
C12.rsa     an RSA exponent / modulus of 1 to 512 octets (4096 bits, RFC 3110
            section 2) is accepted, longer or empty ones are refused.
C12.tag     Dnskey::key_tag reads all four RDATA fields, and every octet of the public
            key contributes (no exact-chunk walk that drops a trailing odd octet).
C12.types   every record type whose RDATA names RFC 4034 6.2 (as corrected by RFC
            6840 5.1) wants lower-cased in the signed octets has a typed variant
            in ZoneRecordData -- a type without one is held as UnknownRecordData,
            whose canonical form is its octets as they are.  (What the typed
            variants lower-case is C05.lower.)
C12.labels  the RRSIG Labels value discounts only a *leftmost* wildcard label
            and the root label; the validator compares it against the owner's
            label count without the root.
"""
import re

from mirlib import BranchFacts, strip, deep_strip, show, walk, const_value, closures_created_in
from rulelib import bool_facts, cyclic_blocks, return_assignments, must_pass
import sigs
from c04 import access_path


def run(ctx):
    F = ctx.facts
    sigs.set_facts(F)
    ctx.extra["explanation"] = (
        "C12: layout agreement between the signer's signed data (ProtoRrsig::compose_canonical + "
        "Record::compose_canonical) and the validator's RrsigExt::signed_data, canonical ordering on both sides, "
        "structure of rrsig_label_count. Cryptography, key tags, DS digests and label-counting values are not decided."
    )
    rule_sig(ctx, F)
    rule_sort(ctx, F)
    rule_labels(ctx, F)
    rule_scratch(ctx, F)
    rule_digest(ctx, F)
    rule_rsa(ctx, F)
    rule_tag(ctx, F)
    rule_types(ctx, F)
    # both sides sort the RRset with canonical_cmp: its agreement with the canonical form is part of "signatures verify"
    import c04
    c04.rule_canon(ctx, F)
    c04.rule_lenfirst(ctx, F)
    rule_algtab(ctx, F)
    rule_sorted(ctx, F)
    # a signature is made over / verified against the record data as it is: conversions between octets types keep every
    # field (Rrsig::flatten, convert_octets, OctetsFrom) -- shared with C05
    import c05
    c05.rule_conv(ctx, F)
    c04.rule_charlen(ctx, F)    # the signer sorts character-string records with it
    import c17
    c17.rule_use(ctx, F)        # validity periods are compared in serial arithmetic


def _tokens(b, F, depth=0):
    """[(bb, descriptor, kind, inloop)] of compose-like calls; descriptor = access path of the value written."""
    cyc = cyclic_blocks(b)
    out = []
    for bb in sorted(b.reachable_blocks()):
        t = b.blocks[bb]["t"]
        if t["k"] != "call" or not t["fn"]:
            continue
        k = sigs.compose_kind(t)
        if k is None:
            continue
        args = [b.term_of_operand(a) for a in t["args"]]
        val = args[1] if k in ("name:compress", "octets") and len(args) > 1 else args[0]
        ap = access_path(b, val)
        desc = None
        if ap is not None:
            desc = ".".join(e.replace("()", "") for e in ap[1] if not re.match(r"^(as_ref|deref|borrow|clone|next|map|iter)\(\)$", e) and not e.startswith("as ") and e not in ("0",))
        else:
            # value obtained from a loop item: use the chain of getter names applied to it
            names = []
            v = deep_strip(val)
            while v[0] == "call" and v[1] and len(v[3]) == 1:
                names.append(v[1].split("::")[-1])
                v = deep_strip(v[3][0])
            if v[0] == "field" and isinstance(v[2], str):
                names.append(v[2])
            if names:
                desc = ".".join(names[::-1])
        if desc == "" and k.endswith(":compose_head") and depth < 2:
            cb = F.bodies.get(t["res"] or t["fn"])
            if cb is not None:
                out += [(bb, d2, k2, bb in cyc, v2) for (_, d2, k2, _, v2) in _ordered(cb, _tokens(cb, F, depth + 1))]
                continue
        out.append((bb, desc, k, bb in cyc, val))
    return out


def _ordered(b, toks):
    # stable: tokens inlined from one helper call share a block and keep their relative order
    idx = {id(x): i for i, x in enumerate(toks)}
    return sorted(toks, key=lambda x: (sum(1 for o in toks if o[0] != x[0] and b.dominates(o[0], x[0])), idx[id(x)]))


def rule_sig(ctx, F):
    R = "C12.sig"
    ctx.floor(R, 8)
    vb = F.one_body(r"^<rdata::dnssec::Rrsig<Octets, TN> as dnssec::validator::base::RrsigExt>::signed_data$")
    pb = F.one_body(r"^rdata::dnssec::ProtoRrsig::<Name>::compose_canonical$")
    rb = F.one_body(r"^base::record::Record::<N, D>::compose_canonical$")
    sb = F.one_body(r"^dnssec::sign::signatures::rrsigs::sign_sorted_rrset_in$")
    if not (ctx.anchor(R, "RrsigExt::signed_data", vb) and ctx.anchor(R, "ProtoRrsig::compose_canonical", pb)
            and ctx.anchor(R, "Record::compose_canonical", rb) and ctx.anchor(R, "sign_sorted_rrset_in", sb)):
        return
    # signer composes head then each record, into the same buffer, and signs exactly that buffer
    head_call = sb.calls_matching(r"ProtoRrsig::<.*>::compose_canonical$")
    rec_call = sb.calls_matching(r"record::Record::<.*>::compose_canonical$")
    sign_call = sb.calls_matching(r"SignRaw::sign_raw$")
    ok = len(head_call) == 1 and len(rec_call) == 1 and len(sign_call) == 1 and sb.dominates(head_call[0][0], rec_call[0][0]) \
        and sb.dominates(head_call[0][0], sign_call[0][0])
    ctx.ob(R, sb, "signer signs RRSIG head followed by every canonical RR", ok,
           "sign_sorted_rrset_in must compose the RRSIG RDATA prefix, then every record canonically, then sign that buffer")
    vt = _tokens(vb, F)
    head_v = [(d, k) for bb, d, k, l, v in _ordered(vb, [x for x in vt if not x[3]])]
    head_s = [(d, k) for bb, d, k, l, v in _ordered(pb, _tokens(pb, F))]
    ctx.ob(R, vb, "RRSIG RDATA head: same fields, order and codecs as the signer", head_v == head_s and len(head_s) == 8,
           "validator rebuilds the RRSIG RDATA prefix as %s, the signer writes %s" % (head_v, head_s))
    ctx.ob(R, pb, "signer's name is lower-cased in the signed RRSIG RDATA", ("signer_name", "name:lower") in head_s,
           "RFC 4034 3.1.8.1: the Signer's Name is in canonical form; found %s" % head_s)
    # per-RR part
    loop = [x for x in vt if x[3]]
    names = [x for x in loop if x[2].startswith("name:")]
    ctx.ob(R, vb, "RR owner written in canonical form on every branch", bool(names) and all(x[2] == "name:lower" for x in names),
           "signed_data writes an owner name with %s: every owner (also the rebuilt wildcard suffix) must be "
           "lower-cased, or signatures fail after case changes" % sorted(set(x[2] for x in names)))
    raws = [x for x in loop if x[2] == "octets"]
    bad = []
    for x in raws:
        v = deep_strip(x[4])
        cv = v[1] if v[0] == "k" else None
        if not (isinstance(cv, list) and cv == [1, 42]):
            bad.append(show(v)[:60])
    ctx.ob(R, vb, "only the literal wildcard label is appended raw", not bad,
           "signed_data appends raw octets %s inside the per-record part: name octets must go through compose_canonical "
           "(lower-casing)" % bad)
    tail_v = [(d, k) for bb, d, k, l, v in _ordered(vb, [x for x in loop if not x[2].startswith("name:") and x[2] != "octets"])]
    tail_s = [(d, k) for bb, d, k, l, v in _ordered(rb, [x for x in _tokens(rb, F) if not x[2].startswith("name:")])]
    norm = lambda seq: [(("ttl" if d in ("ttl", "original_ttl") else (d or "").split(".")[-1]), k.split(":")[-1] if k.startswith("D:") else k) for d, k in seq]
    ctx.ob(R, vb, "per RR: type, class, TTL, canonical length-prefixed RDATA as the signer", norm(tail_v) == norm(tail_s) and len(tail_s) == 4,
           "validator per-RR layout %s vs signer (Record::compose_canonical) %s" % (tail_v, tail_s))
    ctx.ob(R, vb, "TTL in the signed data is the RRSIG original TTL", ("original_ttl", "Ttl:compose") in tail_v,
           "the validator must use the Original TTL field, not the received TTL: %s" % tail_v)
    own_s = [x for x in _tokens(rb, F) if x[2].startswith("name:")]
    ctx.ob(R, rb, "signer writes the owner in canonical form", len(own_s) == 1 and own_s[0][2] == "name:lower" and own_s[0][1] == "owner",
           "Record::compose_canonical owner token: %s" % [(x[1], x[2]) for x in own_s])


def rule_sort(ctx, F):
    R = "C12.sort"
    ctx.floor(R, 2)
    vb = F.one_body(r"^<rdata::dnssec::Rrsig<Octets, TN> as dnssec::validator::base::RrsigExt>::signed_data$")
    if ctx.anchor(R, "RrsigExt::signed_data", vb):
        srt = vb.calls_matching(r"<impl \[T\]>::sort_by$|slice::<impl \[T\]>::sort_by$|::sort_by$")
        okc = False
        for p, cb in F.bodies.items():
            if cb.root == vb.path or p.startswith(vb.path + "::{closure"):
                if any((t["fn"] or "").endswith("CanonicalOrd::canonical_cmp") for _, t in cb.calls()):
                    okc = True
        nxt = [bb for bb, t in vb.calls() if (t["fn"] or "").endswith("Iterator::next")]
        ok = len(srt) == 1 and okc and all(vb.dominates(srt[0][0], n) for n in nxt)
        ctx.ob(R, vb, "validator sorts RRs by canonical_cmp before composing", ok,
               "signed_data must sort the records with CanonicalOrd::canonical_cmp on the data before writing them")
    # signer: input is an Rrset of sorted records (type-level) and canonical ordering is what SortedRecords uses
    sr = [b for p, b in F.bodies.items() if re.search(r"sign::records::SortedRecords::<.*>::(new|insert|extend|sort|from)|SortedRecords<.*> as .*From", p)]
    uses = any(any((t["fn"] or "").endswith("CanonicalOrd::canonical_cmp") for _, t in cb.calls())
               for p, cb in F.bodies.items() if "sign::records::" in p)
    ctx.ob(R, "dnssec::sign::records::SortedRecords", "signer's record collection orders by canonical_cmp", uses,
           "SortedRecords no longer orders with CanonicalOrd::canonical_cmp")


def rule_sorted(ctx, F):
    """SortedRecords is what the signer signs in stored order, so its records are in canonical order *including the
    record data* after every operation: a record goes in at the index a binary search with canonical_cmp returned, or
    the collection is sorted with canonical_cmp before the function returns.  A `push` without either (an
    append fast path judged by class, owner and type) leaves an RRset out of canonical order."""
    R = "C12.sorted"
    ctx.floor(R, 2)
    n = 0

    def uses_canonical(b, bb):
        """the comparator handed to the call at bb is canonical_cmp (as a function item) or a closure that reaches it"""
        for a in b.blocks[bb]["t"]["args"]:
            if a[0] == "k" and a[3] and "canonical_cmp" in a[3]:
                return True
        for bi, cb, ops in closures_created_in(F, b):
            if any((t["fn"] or "").endswith("CanonicalOrd::canonical_cmp") or (t["fn"] or "").endswith("::compare") for _, t in cb.calls()):
                return True
        return False
    for p, b in sorted(F.bodies.items()):
        if "sign::records::SortedRecords" not in p or "::test" in p or "{closure" in p:
            continue
        adds = [(bb, t) for bb, t in b.calls()
                if re.search(r"Vec::<.*>::(push|insert|extend|append|extend_from_slice)$|Extend<.*>::extend$", t["fn"] or "")]
        if not adds:
            continue
        sorts = [bb for bb, t in b.calls() if re.search(r"::(sort_by|sort_unstable_by|par_sort_by|sort)$", t["fn"] or "") and uses_canonical(b, bb)]
        searches = [bb for bb, t in b.calls() if re.search(r"::binary_search_by$", t["fn"] or "") and uses_canonical(b, bb)]
        rets = [i for i in b.reachable_blocks() if b.blocks[i]["t"]["k"] == "ret" and not b.blocks[i].get("c")]
        for bb, t in adds:
            n += 1
            how = None
            last = (t["fn"] or "").split("::")[-1]
            if last == "insert" and len(t["args"]) >= 3:
                idx = deep_strip(b.term_of_operand(t["args"][1]))
                if any(s_[0] == "call" and (s_[1] or "").endswith("::binary_search_by") for s_ in walk(idx)) and \
                        any(b.dominates(sb, bb) for sb in searches):
                    how = "at the index of a canonical binary search"
            if how is None and sorts:
                holds, path = must_pass(b, bb, rets, sorts)
                if holds:
                    how = "sorted canonically before returning"
            ctx.ob(R, b, "%s keeps canonical order #%d" % (last, sum(1 for o in ctx.obs if o.rule == R and o.fn == b.path) + 1), how is not None,
                   "%s adds a record to the collection with Vec::%s neither at the position a binary search with canonical_cmp "
                   "gave nor followed by a canonical sort: records of one RRset can end up out of canonical order (the comparison "
                   "has to include the record data), and sign_sorted_zone_records signs them in stored order -- the RRSIG never "
                   "verifies" % (p.split("::")[-1], last), b.where(bb), detail=how)
    ctx.call_sites += n


def rule_labels(ctx, F):
    R = "C12.labels"
    ctx.floor(R, 3)
    b = F.one_body(r"^base::name::traits::ToName::rrsig_label_count$")
    if ctx.anchor(R, "ToName::rrsig_label_count", b):
        iw = b.calls_matching(r"Label::is_wildcard$")
        closures = [cb for p, cb in F.bodies.items() if cb.root == b.path or p.startswith(b.path + "::{closure")]
        per_label = any(any(re.search(r"Label::(is_wildcard|is_root)$", t["fn"] or "") for _, t in cb.calls()) for cb in closures)
        first = False
        if len(iw) == 1:
            recv = deep_strip(b.term_of_operand(iw[0][1]["args"][0]))
            nx = [s for s in walk(recv) if s[0] == "call" and (s[1] or "").endswith("Iterator::next")]
            first = len(nx) == 1 and not b.back_edges()
        ctx.ob(R, b, "only the leftmost label is tested for being a wildcard", first and not per_label,
               "RFC 4034 3.1.3: the Labels field does not count the root label and a *leftmost* `*` label; "
               "rrsig_label_count tests %s" % ("every label (filter closure)" if per_label else "something other than the first label"))
        # wildcard branch: remaining count - 1 (root); other branch: remaining count
        rets = return_assignments(b)
        vals = {}
        for rb, si, kind, term in rets:
            if term is None:
                continue
            t = deep_strip(term)
            while t[0] == "cast":
                t = deep_strip(t[2])
            wild = None
            for tt, vv in bool_facts(b, rb, F):
                if tt[0] == "call" and (tt[1] or "").endswith("is_wildcard"):
                    wild = vv
            vals[wild] = t
        okv = (True in vals and False in vals and vals[True][0] == "bin" and vals[True][1] == "Sub" and const_value(vals[True][3]) == 1
               and "count" in show(vals[True][2]) and vals[False][0] == "call" and (vals[False][1] or "").endswith("::count"))
        ctx.ob(R, b, "count = remaining labels (-1 for the root when the first label was `*`)", okv,
               "rrsig_label_count result shapes: %s" % {k: show(v)[:50] for k, v in vals.items()})
    sb = F.one_body(r"^dnssec::sign::signatures::rrsigs::sign_sorted_rrset_in$")
    if sb is not None:
        c = sb.calls_matching(r"ToName::rrsig_label_count$")
        okl = False
        pn = sb.calls_matching(r"ProtoRrsig::<.*>::new$")
        if len(c) == 1 and len(pn) == 1:
            a = deep_strip(sb.term_of_operand(pn[0][1]["args"][2]))
            okl = a[0] == "call" and a[5] == c[0][0] and "owner" in show(a)
        ctx.ob(R, sb, "signer's Labels field = owner.rrsig_label_count()", okl,
               "the Labels field of the RRSIG must be computed from the RRset owner")


# ---------------------------------------------------------------------------
# the octets handed to the signing primitive are this RRset's signed data only
# ---------------------------------------------------------------------------

def rule_scratch(ctx, F):
    """sign_sorted_rrset_in composes the signed data into a caller-provided,
    reused scratch buffer.  The buffer must be emptied on every path *before*
    the first octet is composed into it (clearing it afterwards leaves stale
    octets behind whenever the function leaves early, e.g. when sign_raw
    fails), and what is signed is that buffer."""
    R = "C12.scratch"
    ctx.floor(R, 2)
    bs = [b for p, b in F.bodies.items() if re.match(r"^dnssec::sign::signatures::rrsigs::sign_sorted_rrset_in$", p)]
    if not ctx.anchor(R, "sign_sorted_rrset_in", len(bs) == 1):
        return
    b = bs[0]
    params = [i for i in range(1, b.nargs + 1) if re.match(r"^&mut alloc::vec::Vec<u8>$", b.locals[i])]
    if not ctx.anchor(R, "scratch buffer parameter (&mut Vec<u8>)", len(params) == 1, b.where()):
        return
    sp = params[0]

    def on_scratch(op):
        tt = deep_strip(b.term_of_operand(op))
        return any(s == ("arg", sp) for s in walk(tt))
    clears, writes, signs = [], [], []
    for bi, t in b.calls():
        fn = t["fn"] or ""
        if not t["args"]:
            continue
        if re.search(r"Vec::<.*>::(clear|truncate)$", fn) and on_scratch(t["args"][0]):
            clears.append(bi)
        elif re.search(r"::(compose_canonical|compose|compose_canonical_rdata|append_slice|extend_from_slice|push)$", fn) \
                and any(on_scratch(a) for a in t["args"]):
            writes.append(bi)
        elif fn.endswith("SignRaw::sign_raw") and any(on_scratch(a) for a in t["args"]):
            signs.append(bi)
    ctx.anchor(R, "signed data composed into the scratch buffer", len(writes) >= 2, b.where())
    ctx.ob(R, b, "scratch buffer emptied before the signed data is composed",
           bool(clears) and all(any(b.dominates(c, w) for c in clears) for w in writes),
           "sign_sorted_rrset_in composes the signed data into the caller's scratch buffer without first clearing "
           "it on every path (clear sites: %d): octets left over from an earlier call — e.g. one that returned "
           "early because sign_raw failed — are signed along with this RRset" % len(clears))
    ctx.ob(R, b, "the scratch buffer is what gets signed", len(signs) == 1 and any(b.dominates(w, signs[0]) for w in writes)
           and all(signs[0] in b.reach_from(w) for w in writes),
           "sign_raw is not called on the scratch buffer after all signed data was composed into it")


def rule_digest(ctx, F):
    R = "C12.digest"
    ctx.floor(R, 2)
    bs = [b for p, b in F.bodies.items() if re.search(r"DnskeyExt>::digest(::<.*>)?$", p)]
    if not ctx.anchor(R, "DnskeyExt::digest", len(bs) >= 1):
        return
    b = bs[0]
    names = []
    for sb, bb, tt in sigs.callees_deep(F, b, depth=1):
        fn = tt.get("full") or tt["fn"] or ""
        if not sb.path.startswith(b.path):
            continue            # only what digest and its closures feed themselves
        if re.search(r"ToName>?::compose(_canonical)?(::<.*>)?$", fn):
            names.append(("name", "canonical" in fn.split("::")[-1] or "compose_canonical" in fn))
        if re.search(r"ComposeRecordData>?::compose(_canonical)?_rdata(::<.*>)?$", fn):
            names.append(("rdata", "canonical" in fn))
    nm = [c for k, c in names if k == "name"]
    rd = [c for k, c in names if k == "rdata"]
    ctx.ob(R, b, "the owner name is digested in canonical form", bool(nm) and all(nm),
           "DnskeyExt::digest feeds the owner name as it is given (compose) instead of its canonical, lower-cased form "
           "(compose_canonical): the DS digest of a key whose owner name has an upper-case letter differs from every other "
           "implementation's")
    ctx.ob(R, b, "the DNSKEY RDATA is digested in canonical form", bool(rd) and all(rd),
           "DnskeyExt::digest does not use compose_canonical_rdata for the DNSKEY RDATA")


def rule_rsa(ctx, F):
    R = "C12.rsa"
    ctx.floor(R, 1)
    b = F.one_body(r"^crypto::common::rsa_exponent_modulus$")
    if not ctx.anchor(R, "crypto::common::rsa_exponent_modulus", b):
        return
    ranges = []
    for sb, bb, tt in sigs.callees_deep(F, b, depth=0):
        fn = tt["fn"] or ""
        if fn.endswith("::contains") and tt["args"]:
            r = deep_strip(sb.term_of_operand(tt["args"][0]))
            s = show(r)
            if r[0] == "call" and "RangeInclusive" in (r[1] or "") and len(r[3]) >= 2:
                ranges.append((const_value(deep_strip(r[3][0])), const_value(deep_strip(r[3][1]))))
            elif r[0] == "agg" and "Range" in str(r[1][1]) and len(r[2]) >= 2:
                lo, hi = const_value(deep_strip(r[2][0])), const_value(deep_strip(r[2][1]))
                ranges.append((lo, hi - 1 if hi is not None and str(r[1][1]).endswith("::Range") else hi))
    if not ctx.anchor(R, "length range test in rsa_exponent_modulus", len(ranges) >= 1, b.where()):
        return
    ctx.ob(R, b, "exponent and modulus lengths of 1..=512 octets are accepted", all(r == (1, 512) for r in ranges),
           "rsa_exponent_modulus accepts lengths %s; RFC 3110 allows up to 4096 bits = 512 octets: a 4096-bit RSA key is "
           "rejected (or an over-long one accepted)" % ranges)


def rule_tag(ctx, F):
    R = "C12.tag"
    ctx.floor(R, 2)
    import c04
    bs = [b for p, b in F.bodies.items() if re.search(r"^rdata::dnssec::Dnskey::<\w+>::key_tag$", p)]
    if not ctx.anchor(R, "Dnskey::key_tag", len(bs) == 1):
        return
    b = bs[0]
    used = set(c04.fields_used(F, b, 1, "Dnskey"))
    for sb, bb, tt in sigs.callees_deep(F, b, depth=0):
        g = c04._getter_field(F, sigs.nogen(tt.get("res") or tt.get("full") or ""))
        if g is None:
            for p in F.bodies:
                if sigs.nogen(p) == sigs.nogen(tt.get("full") or "") and p.startswith("rdata::dnssec::Dnskey::<"):
                    g = c04._getter_field(F, p)
        if g:
            used.add(g)
    need = {"flags", "protocol", "algorithm", "public_key"}
    ctx.ob(R, b, "all four DNSKEY RDATA fields enter the key tag", need <= used,
           "Dnskey::key_tag does not read %s: RFC 4034 appendix B sums the whole RDATA" % sorted(need - used))
    names = [(tt["fn"] or "") for sb, bb, tt in sigs.callees_deep(F, b, depth=0)]
    exact = [n for n in names if re.search(r"::(chunks_exact|array_chunks|as_chunks|rchunks_exact)$", n)]
    rem = [n for n in names if re.search(r"::(remainder|into_remainder)$", n)]
    ctx.ob(R, b, "no octet of the public key is left out of the sum", not exact or bool(rem),
           "Dnskey::key_tag walks the public key with %s and never looks at the remainder: the last octet of an "
           "odd-length key (Ed448, some RSA keys) does not enter the key tag" % (exact[0].split("::")[-1] if exact else ""))


# RFC 4034 6.2 item 3, corrected by RFC 6840 5.1 (HINFO and NSEC do not belong in the list)
RFC4034_LOWER = ["Ns", "Md", "Mf", "Cname", "Soa", "Mb", "Mg", "Mr", "Ptr", "Minfo", "Mx", "Rp", "Afsdb", "Rt", "Sig",
                 "Px", "Nxt", "Naptr", "Kx", "Srv", "Dname", "A6", "Rrsig"]
TYPES_AUDIT = {
    "Sig": "obsolete (RFC 3755): replaced by RRSIG, never part of a signed RRset in a DNSSEC-bis zone",
    "Nxt": "obsolete (RFC 3755): replaced by NSEC",
    "A6": "historic (RFC 6563)",
}


def rule_types(ctx, F):
    R = "C12.types"
    ctx.floor(R, 16)
    adt = next((a for p, a in F.adts.items() if p == "rdata::ZoneRecordData"), None)
    if not ctx.anchor(R, "enum rdata::ZoneRecordData", adt is not None and len(adt["variants"]) >= 30):
        return
    have = {v["name"] for v in adt["variants"]}
    unk = [b for p, b in F.bodies.items() if re.search(r"UnknownRecordData<\w+> as base::rdata::ComposeRecordData>::compose_canonical_rdata$", p)]
    if ctx.anchor(R, "UnknownRecordData::compose_canonical_rdata", len(unk) == 1):
        lowers = [tt for sb, bb, tt in sigs.callees_deep(F, unk[0], depth=2) if "compose_canonical" in (tt["fn"] or "") and "ToName" in (tt["fn"] or "")]
        ctx.ob(R, unk[0], "(premise) record data of a type without a variant is signed as it is", not lowers,
               "UnknownRecordData now lower-cases names: the table below needs a new look", nontrivial=False)
    for name in RFC4034_LOWER:
        if name in TYPES_AUDIT:
            ctx.ob(R, "rdata::ZoneRecordData", "%s: no typed variant needed" % name.upper(), True, "", nontrivial=False, detail=TYPES_AUDIT[name])
            continue
        ctx.ob(R, "rdata::ZoneRecordData", "%s has a typed variant that can lower-case its names" % name.upper(), name in have,
               "ZoneRecordData has no variant for %s, which RFC 4034 6.2 lists among the types whose embedded names are "
               "lower-cased in the signed octets: such a record is an UnknownRecordData, is signed with the names as written, "
               "and the signature fails at a validator after a (legitimate) case change of the RDATA name -- and at every "
               "validator that implements the RFC" % name.upper())


def rule_algtab(ctx, F):
    """Signer and verifier use the same hash for one algorithm number.  (a) In the ring signer every padding / curve
    constant referenced under a KeyPair variant names the digest that the variant names (RsaSha512 -> ..._SHA512).
    (b) DnskeyExt::digest builds, for DS digest type 1 / 2 / 4, the SHA-1 / SHA-256 / SHA-384 context (RFC 4034, 4509,
    6605) -- the table is read off the match arms."""
    from rulelib import outcome_facts
    R = "C12.algtab"
    ctx.floor(R, 5)
    sb = F.one_body(r"^<crypto::ring::sign::KeyPair as crypto::sign::SignRaw>::sign_raw$")
    if ctx.anchor(R, "ring KeyPair::sign_raw", sb):
        n = 0
        for bi in sorted(sb.reachable_blocks()):
            for st in sb.blocks[bi]["s"]:
                if st[0] != "=" or st[2][0] != "use" or st[2][1][0] != "k" or not st[2][1][3]:
                    continue
                m = re.search(r"ring::signature::\w*?SHA(\d+)", str(st[2][1][3]))
                if not m:
                    continue
                variants = [o[1] for tm, o in outcome_facts(sb, bi, F) if isinstance(o, tuple) and o[0] == "variant" and re.search(r"Sha\d+", str(o[1]))]
                n += 1
                ok = bool(variants) and all(re.search(r"Sha(\d+)", v).group(1) == m.group(1) for v in variants)
                ctx.ob(R, sb, "%s is signed with the digest it names" % (variants[0] if variants else "?"), ok,
                       "sign_raw uses %s under the key variant %s: the signature is made over another digest than the algorithm number "
                       "promises and the verifier (which follows the number) answers BadSig" % (st[2][1][3], variants), sb.where(bi))
        ctx.ob(R, sb, "digest-bearing constants found in sign_raw", n >= 2, "found %d" % n, nontrivial=False)
    db = F.one_body(r"^<rdata::dnssec::Dnskey<Octets> as dnssec::validator::base::DnskeyExt>::digest$")
    if ctx.anchor(R, "DnskeyExt::digest", db):
        want = {1: "Sha1", 2: "Sha256", 4: "Sha384"}
        seen = {}
        for bi in sorted(db.reachable_blocks()):
            for st in db.blocks[bi]["s"]:
                if st[0] == "=" and st[2][0] == "agg" and st[2][1][0] == "adt" and str(st[2][1][1]).endswith("crypto::common::DigestType"):
                    ks = [o[1] for tm, o in outcome_facts(db, bi, F) if isinstance(o, tuple) and o[0] == "eq" and isinstance(o[1], int)]
                    for k in ks:
                        seen[k] = st[2][1][2]
        for k, v in sorted(want.items()):
            ctx.ob(R, db, "DS digest type %d is computed with %s" % (k, v), seen.get(k) == v,
                   "DnskeyExt::digest builds a %s context for digest type %d (must be %s): the DS digest differs from what every "
                   "other implementation computes, and a correct DS in the parent never matches the key" % (seen.get(k), k, v), db.where())
