"""C07 — the zone-file reader (narrow, structural clauses only).

Totality for every byte string and independence from layout are relations
over all inputs and pairs of inputs; they are not decided.  Decided are the
finite decision table of the item categoriser, the guards around its
parenthesis counter, the inheritance rules for owner, class and TTL, and a
typed unwrap / explicit-panic audit:

C07.cat      SourceBuf::next_item classifies the next octet exactly like the
             presentation format says (all 256 octets enumerated): space, tab
             and CR are skipped and set has_space; `(` opens and `)` closes a
             group; `;` starts a comment; LF ends the entry; `"` starts a
             quoted token; every other octet starts an unquoted token.
C07.paren    `)` decrements the group depth only behind `depth > 0` and is an
             error otherwise; a line feed ends the entry only at depth 0.
C07.inherit  an entry starting with white space takes the last owner (error if
             there is none) and does not replace it; a class given explicitly
             is used (and remembered when none was), otherwise the last class;
             a TTL given explicitly is used and remembered, otherwise $TTL if
             set, otherwise the last TTL.
C07.digit    every `ch - b'0'` in the escape decoder is behind is_ascii_digit(ch)
             for that very octet (all three digits of `\\DDD` alike).
C07.fast     the fast-path symbol reader stops at exactly the octets the item
             categoriser and Symbol::is_word_char treat as special (plus the
             escape character): fast and slow path agree where a token ends.
C07.token    every reader method that consumes a token (reads symbols, then
             ends the token with next_item) checks require_token first, on
             every path from its entry and from a previous token's end: at a
             line feed or the end of input it reports an error instead of
             reading on into the next entry or past the buffer.
C07.drain    typestate of the reader's cursor: next_item() is only called when
             the current token has been read to its end (the last full symbol
             read returned None, or the item category was tested to be None /
             LineFeed), never right after a fast-path reader stopped early or
             right after require_token(): the "token not completely read"
             assertion cannot fire from the reader's own call sequences.
C07.delim    the cursor is never moved past a symbol that was found not to be a
             word character: the delimiter behind an unquoted token (paren,
             semicolon, quote, line feed, blank) is left for the item
             categoriser to interpret.
C07.len      a running length check in scan_name that ends in `bad name`
             rejects exactly relative lengths of 255 and more (a 255-octet
             absolute name is legal, RFC 1035 2.3.4): the absolute spelling is
             not bounded tighter than Name's own limit, which bounds the
             relative spelling through chain().
C07.quote    the closing quote is not part of a token's value: a value whose
             end is taken from the cursor after a fast-path reader (which
             consumes the closing quote when it ends a quoted token) either
             is known not to have ended there or has the `cursor - 1`
             alternative for quoted tokens (scan_octets, scan_svcb_octets and
             scan_string agree).
C07.ovf      no overflow-checked arithmetic on a fixed-width integer narrower
             than usize fed by token content in any `scan` function or closure
             (decimal accumulators use checked_mul *and* checked_add): a
             number that overflows in its last digit is an error, not a panic
             (debug) or a wrapped value (release).
C07.utf8     the reader's own UTF-8 decoder (Symbol::from_slice_index) accepts a
             2-, 3- or 4-octet sequence only if the assembled value needs that
             many octets (>= 0x80, 0x800, 0x10000): an overlong spelling of a
             blank, line feed or semicolon is not a character, so the token
             scanner and the item categoriser cannot disagree about it.
C07.wordset  the characters that end an unquoted token (Symbol::is_word_char is
             false) are exactly the octets SourceBuf::next_item treats
             specially (white space, parentheses, `;`, `"`, line feed): a
             character that ends a token but does not look special to the
             item categoriser would start the next token at the same place --
             no progress, the reader never returns.
C07.eof      Zonefile::load, which reads its source to the end, makes sure the
             text ends in a line feed: the last entry of a file without a
             final newline is an entry, not a `short buffer` error (the reader
             treats the end of the buffer as "more may come").
C07.at       a free-standing `@` stands for the origin wherever a domain name is
             read (RFC 1035 5.1): EntryScanner::scan_name asks skip_at_token
             before it converts labels, as the owner position does.
C07.panic    no unwrap/expect of a parse / conversion error and no explicit
             panic macro under a branch on file content in the reader.
"""
import re

from mirlib import BranchFacts, strip, deep_strip, show, walk, const_value
from rulelib import bool_facts, control_terms, facts_at, outcome_facts, return_assignments, flow_states, must_pass
import c03

Z = "zonefile::inplace::"


def run(ctx):
    F = ctx.facts
    ctx.extra["explanation"] = (
        "C07 (narrow): octet decision table of the item categoriser over all 256 octets, guards of the parenthesis "
        "depth, owner / class / TTL inheritance in scan_owner_record and _scan_entry, typed unwrap and explicit-panic "
        "audit of the reader. Termination and totality for all byte strings, the in-place write<=read cursor "
        "invariant and layout independence are not decided."
    )
    rule_cat(ctx, F)
    rule_inherit(ctx, F)
    rule_panic(ctx, F)
    rule_token(ctx, F)
    rule_drain(ctx, F)
    rule_delim(ctx, F)
    rule_len(ctx, F)
    rule_quote(ctx, F)
    rule_ovf(ctx, F)
    rule_digit(ctx, F)
    rule_fast(ctx, F)
    rule_utf8(ctx, F)
    rule_at(ctx, F)
    rule_wordset(ctx, F)
    rule_eof(ctx, F)
    rule_step(ctx, F)
    rule_nocopy(ctx, F)
    import c18
    c18.rule_tailcall(ctx, F)     # multi-token data: the converter is finished once, after the last token
    c18.rule_eofguard(ctx, F)     # ... and a converter past its end-of-data marker takes no further symbol
    rule_linestart(ctx, F)
    rule_stepback(ctx, F)


def _one(F, rx):
    bs = [b for p, b in F.bodies.items() if re.search(rx, p) and "::test" not in p]
    return bs[0] if len(bs) == 1 else None


def rule_cat(ctx, F):
    R = "C07.cat"
    ctx.floor(R, 7)
    b = _one(F, r"^zonefile::inplace::SourceBuf::next_item$")
    if not ctx.anchor(R, "SourceBuf::next_item", b):
        return

    def subj(t):
        t = deep_strip(t)
        while t[0] == "cast":
            t = deep_strip(t[2])
        s = show(t)
        return "get(" in s and "Some" in s
    parts = c03.byte_partition(b, F, subj)
    if not ctx.anchor(R, "octet classification of next_item", bool(parts), b.where()):
        return

    def outcome(path):
        out = []
        for bb in path:
            for st in b.blocks[bb]["s"]:
                if st[0] == "=" and len(st[1]) >= 3 and isinstance(st[1][-1], list) and st[1][-1][0] == ".":
                    fld = st[1][-1][2]
                    rv = deep_strip(b.term_of_rvalue(st[2]))
                    if fld == "cat" and rv[0] == "agg":
                        out.append("cat=" + rv[1][2])
                    elif fld == "parens" and rv[0] == "bin":
                        out.append("parens" + ("+" if rv[1].startswith("Add") else "-"))
                    elif fld == "has_space" and const_value(rv) in (1, True):
                        out.append("space")
            t = b.blocks[bb]["t"]
            if t["k"] == "call" and re.search(r"EntryError::unbalanced_parens$", t["fn"] or ""):
                out.append("err:parens")
        return out
    def tails(leaf):
        """paths from the block an octet class leads to, up to the next loop iteration or the return"""
        back = {h for _, h, _lab in b.back_edges()}
        out = []
        def go(bb, acc, depth):
            if depth > 12 or len(out) > 64:
                out.append(acc)
                return
            nxt = [s for s, _lab in b.succs(bb)]
            if not nxt:
                out.append(acc)
                return
            for s in nxt:
                if s in back or s in acc or b.blocks[s]["t"]["k"] == "ret":
                    out.append(acc + [s] if b.blocks[s]["t"]["k"] == "ret" else acc)
                else:
                    go(s, acc + [s], depth + 1)
        go(leaf, [leaf], 0)
        return out or [[leaf]]
    sets = {}
    leaves = {}
    lf_paths = []
    for octs, leaf, path in parts:
        for tl in tails(leaf):
            oc = outcome(list(path) + tl)
            if set(octs) == {10}:
                lf_paths.append(oc)
            for o in oc:
                sets.setdefault(o, set()).update(octs)
                leaves.setdefault(o, []).append((leaf, path))
    special = {9, 10, 13, 32, 34, 40, 41, 59}
    want = {
        "space": ({9, 10, 13, 32}, "space, tab, CR (and a line feed inside a group) are skipped as white space"),
        "parens+": ({40}, "`(` opens a group"),
        "parens-": ({41}, "`)` closes a group"),
        "err:parens": ({41}, "only `)` can be unbalanced"),
        "cat=LineFeed": ({10}, "LF ends the entry"),
        "cat=Quoted": ({34}, "`\"` starts a quoted token"),
        "cat=Unquoted": (set(range(256)) - special, "every other octet starts an unquoted token"),
    }
    for k, (exp, what) in want.items():
        got = sets.get(k, set())
        ctx.ob(R, b, what, got == exp,
               "SourceBuf::next_item: outcome %s is reached for octets %s, expected %s: files that differ only in "
               "layout would be read differently" % (k, _fmt(got), _fmt(exp)))
    ctx.extra.setdefault("coverage", {})["item_categories"] = {k: _fmt(v) for k, v in sets.items()}
    # a line feed inside a group is white space like a blank: the path that skips it (does not end the entry) marks it
    lf_skips = [oc for oc in lf_paths if "cat=LineFeed" not in oc]
    if ctx.anchor(R, "line feed skipped inside a group", len(lf_skips) >= 1, b.where()):
        ctx.ob(R, b, "a line feed skipped inside parentheses counts as white space", all("space" in oc for oc in lf_skips),
               "SourceBuf::next_item skips a line feed inside a parenthesised group without setting has_space (blank, tab and "
               "CR do): `( alpn=h2<LF>\"ipv4hint=..\" )` is read as one token where the same text with a blank in place of the "
               "line break gives two -- the layout changes the record")
    # guards of the depth counter
    R2 = "C07.paren"
    ctx.floor(R2, 2)
    dec = []
    for bi in b.reachable_blocks():
        for st in b.blocks[bi]["s"]:
            if st[0] == "=" and len(st[1]) >= 3 and isinstance(st[1][-1], list) and st[1][-1][2] == "parens":
                rv = deep_strip(b.term_of_rvalue(st[2]))
                if rv[0] == "bin" and rv[1].startswith("Sub"):
                    dec.append(bi)
    ok = bool(dec)
    for bi in dec:
        g = any(tt[0] == "bin" and "parens" in show(tt[2]) and ((tt[1] == "Gt" and vv is True and const_value(tt[3]) == 0) or
                                                                 (tt[1] == "Ne" and vv is True and const_value(tt[3]) == 0) or
                                                                 (tt[1] == "Ge" and vv is True and const_value(tt[3]) == 1))
                for tt, vv in bool_facts(b, bi, F))
        ok = ok and g
    ctx.ob(R2, b, "`)` decrements the depth only when it is positive", ok,
           "next_item decrements the group depth without a dominating depth > 0: an unbalanced `)` underflows the "
           "counter (panic in debug builds, a very deep group in release builds) instead of being reported")
    lf = []
    for bi in b.reachable_blocks():
        for st in b.blocks[bi]["s"]:
            if st[0] == "=" and len(st[1]) >= 3 and isinstance(st[1][-1], list) and st[1][-1][2] == "cat":
                rv = deep_strip(b.term_of_rvalue(st[2]))
                if rv[0] == "agg" and rv[1][2] == "LineFeed":
                    lf.append(bi)
    ok = bool(lf) and all(any(tt[0] == "bin" and tt[1] == "Eq" and vv is True and const_value(tt[3]) == 0 and "parens" in show(tt[2])
                              for tt, vv in bool_facts(b, bi, F)) for bi in lf)
    ctx.ob(R2, b, "a line feed ends the entry only outside parentheses", ok,
           "next_item reports LineFeed without a dominating depth == 0: a parenthesised continuation would end the entry")


def _fmt(s):
    s = sorted(s)
    if len(s) > 12:
        return "%d octets" % len(s)
    return [("0x%02x" % x) for x in s]


def rule_inherit(ctx, F):
    R = "C07.inherit"
    ctx.floor(R, 6)
    e = _one(F, r"^zonefile::inplace::EntryScanner::<'\w+>::_scan_entry$")
    if ctx.anchor(R, "EntryScanner::_scan_entry", e):
        calls = [(bb, t) for bb, t in e.calls() if re.search(r"EntryScanner::<'\w+>::scan_owner_record$", t["fn"] or "")]
        ctx.anchor(R, "scan_owner_record call in _scan_entry", len(calls) == 1, e.where())
        for bb, t in calls:
            owner = e.term_of_operand(t["args"][1])
            last = any(s[0] == "field" and s[2] == "last_owner" for s in walk(owner))
            newflag = const_value(e.term_of_operand(t["args"][2]))
            sp = any(tt[0] == "field" and tt[2] == "has_space" and vv is True for tt, vv in bool_facts(e, bb, F))
            ctx.ob(R, e, "an entry starting with white space takes the last owner", last and sp,
                   "_scan_entry: the inherited-owner path is not `has_space => last_owner`", e.where(bb))
            ctx.ob(R, e, "an inherited owner does not replace the last owner", newflag in (0, False),
                   "_scan_entry passes new_owner = true for an inherited owner", e.where(bb))
        errs = [bb for bb, t in e.calls() if re.search(r"EntryError::missing_last_owner$", t["fn"] or "")]
        ctx.ob(R, e, "no last owner is an error", bool(errs), "_scan_entry no longer reports a missing last owner")
    for nm in ("scan_record", "scan_at_record"):
        r = _one(F, r"^zonefile::inplace::EntryScanner::<'\w+>::%s$" % nm)
        if ctx.anchor(R, "EntryScanner::%s" % nm, r):
            cs = [(bb, t) for bb, t in r.calls() if re.search(r"scan_owner_record$", t["fn"] or "")]
            ok = bool(cs) and all(const_value(r.term_of_operand(t["args"][2])) in (1, True) for bb, t in cs)
            ctx.ob(R, r, "%s: an explicit owner becomes the last owner" % nm, ok,
                   "%s does not pass new_owner = true" % nm, nontrivial=False)
    o = _one(F, r"^zonefile::inplace::EntryScanner::<'\w+>::scan_owner_record$")
    if not ctx.anchor(R, "EntryScanner::scan_owner_record", o):
        return
    # stores into zonefile.last_owner / last_class / last_ttl with their guards
    stores = {}
    for bi in sorted(o.reachable_blocks()):
        for st in o.blocks[bi]["s"]:
            if st[0] == "=" and len(st[1]) >= 3 and isinstance(st[1][-1], list) and st[1][-1][0] == "." and \
                    st[1][-1][2] in ("last_owner", "last_class", "last_ttl"):
                stores.setdefault(st[1][-1][2], []).append((bi, o.term_of_rvalue(st[2])))
    lo = stores.get("last_owner", [])
    ok = len(lo) == 1 and any(deep_strip(tt) == ("arg", 3) and vv is True for tt, vv in bool_facts(o, lo[0][0], F)) and \
        any(s == ("arg", 2) for s in walk(lo[0][1]))
    ctx.ob(R, o, "last owner updated only for a new owner, with that owner", ok,
           "scan_owner_record does not store exactly the given owner under `new_owner`")
    lt = stores.get("last_ttl", [])
    ok = len(lt) == 1 and any(isinstance(vv, tuple) and vv == ("variant", "Some") for tt, vv, e in facts_at(o, lt[0][0], F))
    ctx.ob(R, o, "an explicit TTL is remembered as the last TTL", ok,
           "scan_owner_record does not store an explicitly given TTL in last_ttl (or stores it on the wrong path)")
    lc = stores.get("last_class", [])
    ok = len(lc) >= 1
    ctx.ob(R, o, "the first explicit class is remembered", ok,
           "scan_owner_record must remember the class when none was known (a store to last_class)")
    # RFC 1035 5.1: "omitted class and TTL values default to the last explicitly stated values" -- every explicitly stated
    # class is remembered, also when one was known already (matters once the same-class rule is switched off)
    recs0 = [bb for bb, t in o.calls() if re.search(r"base::record::Record::<.*>::new$", t["fn"] or "")]
    bf = BranchFacts(o, F)
    some_edges = []
    for sw in sorted(o.reachable_blocks()):
        if o.blocks[sw]["t"]["k"] != "switch":
            continue
        for lab, (tm, v) in bf.edge_facts(sw).items():
            tmd = deep_strip(tm)
            # `match (class, self.zonefile.last_class)`: the edge on which the first component is Some
            if isinstance(v, tuple) and v == ("variant", "Some") and tmd[0] == "field" and str(tmd[2]) == "0":
                base = deep_strip(tmd[1])
                if base[0] == "agg" and len(base[2]) == 2 and any(s[0] == "field" and s[2] == "last_class" for s in walk(base[2][1])):
                    some_edges.append(o.edge_target(sw, lab))
    if ctx.anchor(R, "the `class is stated` edge in scan_owner_record", len(some_edges) >= 1 and len(recs0) == 1, o.where()):
        okc = all(must_pass(o, e_, recs0, [bi for bi, _ in lc])[0] for e_ in some_edges)
        ctx.ob(R, o, "every explicitly stated class becomes the last class", okc,
               "scan_owner_record remembers an explicitly stated class only while none is known: with the same-class rule "
               "switched off (allow_invalid) `a IN A ..` / `b CH A ..` / `c A ..` gives `c` the class IN, not the last stated "
               "class CH (RFC 1035 5.1)")
    # the record: which ttl / class values reach Record::new
    recs = [(bb, t) for bb, t in o.calls() if re.search(r"base::record::Record::<.*>::new$", t["fn"] or "")]
    if ctx.anchor(R, "Record::new in scan_owner_record", len(recs) == 1, o.where()):
        bb, t = recs[0]
        ttl = o.term_of_operand(t["args"][2])
        flds = {s[2] for s in walk(ttl) if s[0] == "field" and isinstance(s[2], str)}
        ctx.ob(R, o, "TTL = explicit, else $TTL, else last TTL", {"dollar_ttl", "last_ttl"} <= flds,
               "the record's TTL does not fall back to $TTL and then to the last stated TTL (fields read: %s)" % sorted(flds & {"dollar_ttl", "last_ttl"}),
               o.where(bb))
        # $TTL wins over the last TTL: the dollar_ttl Some edge yields dollar_ttl
        cls = o.term_of_operand(t["args"][1])
        flds = {s[2] for s in walk(cls) if s[0] == "field" and isinstance(s[2], str)}
        ctx.ob(R, o, "class = explicit, else last class", "last_class" in flds,
               "the record's class does not fall back to the last class", o.where(bb))
    miss = [bb for bb, t in o.calls() if re.search(r"EntryError::missing_last_class$", t["fn"] or "")]
    ctx.ob(R, o, "no class at all is an error", bool(miss), "scan_owner_record no longer reports a missing class")


PARSE_ERR = re.compile(r"(EntryError|base::scan::(Str|Symbol|BadSymbol)\w*Error|core::str::Utf8Error|core::num::ParseIntError|"
                       r"base::name::\w+::\w*Error|base::charstr::\w*Error|octseq::\w*::ShortBuf)")
CONTENT = re.compile(r"(next_symbol|next_ascii_symbol|peek_symbol|Symbol::|next_item|\.cat|has_space|is_line_feed|get\()")


def rule_panic(ctx, F):
    R = "C07.panic"
    ctx.floor(R, 1)
    n = 0
    seen = {}
    scope = 0
    for p, b in sorted(F.bodies.items()):
        if not re.match(r"^<?zonefile::inplace::", p) or "::test" in p:
            continue
        scope += 1
        for bi, t in b.calls():
            fn = t["fn"] or ""
            x = t.get("x") or []
            if re.search(r"core::result::Result::<.*>::(unwrap|expect)$", fn) and len(t["targs"]) >= 2 and PARSE_ERR.search(t["targs"][1]):
                n += 1
                src = next((s for s in walk(deep_strip(b.term_of_operand(t["args"][0]))) if s[0] == "call"), None)
                sname = src[1].split("::")[-1] if src else "?"
                k = (p, sname)
                seen[k] = seen.get(k, 0) + 1
                ctx.ob(R, b, "unwrap of %s#%d" % (sname, seen[k]), (p.split("::")[-1], sname) in AUDIT,
                       "unwrap/expect of %s (error type %s) in the zone-file reader: a malformed file panics the reader "
                       "instead of producing an error with a position" % (sname, t["targs"][1].split("::")[-1]), b.where(bi),
                       detail=AUDIT.get((p.split("::")[-1], sname)))
            if re.search(r"core::panicking::(panic|panic_fmt|unreachable_display|panic_explicit)", fn) and x:
                macros = [m for m in x if m in ("unreachable", "panic", "todo", "unimplemented")]
                if not macros:
                    continue
                ctrl = [show(deep_strip(tt)) for tt in control_terms(b, bi, F)]
                if not any(CONTENT.search(c) for c in ctrl):
                    continue
                n += 1
                k = (p, macros[0])
                seen[k] = seen.get(k, 0) + 1
                ctx.ob(R, b, "%s!#%d under file content" % (macros[0], seen[k]), (p.split("::")[-1], macros[0]) in AUDIT,
                       "%s!() is reached under a branch on file content in the zone-file reader" % macros[0], b.where(bi),
                       detail=AUDIT.get((p.split("::")[-1], macros[0])))
    ctx.ob(R, "zonefile::inplace", "scanned", True, nontrivial=False,
           detail="%d reader bodies scanned, %d unwrap/panic sites examined" % (scope, n))
    ctx.call_sites += n


SYMREAD = re.compile(r"SourceBuf::(next_symbol|next_ascii_symbol|next_char_symbol)$")


def rule_token(ctx, F):
    """Pairing rule over the reader's token consumers.  SourceBuf hands out
    symbols of the current token; at a line feed or at the end of the input
    there is no token and the symbol readers return None *without* an error.
    A consumer that goes on to next_item() from there steps into the next
    entry.  Every consumer therefore starts each token with require_token()
    (the 8 siblings confirmed by reading); the rule requires it of all."""
    R = "C07.token"
    ctx.floor(R, 9)
    for p, b in sorted(F.bodies.items()):
        if not re.match(r"^<?zonefile::inplace::EntryScanner", p) or "::test" in p or b.kind == "closure":
            continue
        reads = [bi for bi, t in b.calls() if SYMREAD.search(t["fn"] or "")]
        ends = [bi for bi, t in b.calls() if re.search(r"SourceBuf::next_item$", t["fn"] or "")]
        if not reads or not ends:
            continue
        req = [bi for bi, t in b.calls() if re.search(r"SourceBuf::require_token$", t["fn"] or "")]
        # the other accepted idiom: a branch establishing that the current item is a token
        guard = set()
        bf = BranchFacts(b, F)
        for sw in b.reachable_blocks():
            if b.blocks[sw]["t"]["k"] != "switch":
                continue
            for lab, (tt, v) in bf.edge_facts(sw).items():
                s = show(deep_strip(tt))
                if v is True and re.search(r"PartialEq>::eq\(\S*\.cat, adt:\S*ItemCat:(Quoted|Unquoted)\{\}\)$", s):
                    guard.add((sw, lab))
                elif isinstance(v, tuple) and v[0] == "variant" and v[1] in ("Quoted", "Unquoted") and s.endswith(".cat"):
                    guard.add((sw, lab))
        bad = None
        if 0 not in req and b.reach_from(0, removed_blocks=req, removed_edges=guard) & set(reads):
            bad = "from its entry"
        else:
            for e in ends:
                if e not in req and b.reach_from(e, removed_blocks=req, removed_edges=guard) & set(reads) - {e}:
                    bad = "after the end of the previous token"
                    break
        ctx.ob(R, b, "require_token before reading symbols", bad is None,
               "%s reads token symbols %s without require_token(): at a line feed or the end of the input it "
               "continues into the next entry / past the buffer instead of returning an error"
               % (p.split("::")[-1], bad), b.where(reads[0]),
               detail="%d symbol read(s), %d next_item, %d require_token, %d branch(es) on the item being a token"
                      % (len(reads), len(ends), len(req), len(guard)))


FULLREAD = re.compile(r"SourceBuf::next_symbol$")
# helpers whose *result* tells the caller whether the token ended (checked against their own bodies below)
SUMMARISED = {"convert_label": ("None", "Some(false)")}


def _core_call(t):
    """the call a fact is about, looking through `?`, casts and field projections"""
    for s in walk(deep_strip(t)):
        if s[0] == "call" and s[1] and not s[1].endswith("Try::branch"):
            return s
    return None


def _drain_flow(b, F, consumers):
    movers = [bi for bi, t in b.calls() if re.search(r"SourceBuf::(next_item|next_\w*symbol|_next_symbol|skip_\w+)$", t["fn"] or "")
              or (t["fn"] or "") in consumers or (t["fn"] or "").split("::")[-1] in SUMMARISED]
    def on_call(bb, t, st):
        fn = t["fn"] or ""
        if re.search(r"SourceBuf::next_item$", fn):
            return "unknown"
        if re.search(r"SourceBuf::require_token$", fn) or SYMREAD.search(fn):
            return "open"
        last = fn.split("::")[-1]
        if last in SUMMARISED and "zonefile::inplace::EntryScanner" in fn:
            return "open"
        if fn in consumers:
            return "unknown"          # consumes whole tokens and ends them itself (checked in its own body)
        return st

    def on_edge(bb, lab, fact, st):
        if fact is None:
            return st
        tt, v = fact
        s = show(deep_strip(tt))
        # the item category was tested
        m = re.search(r"PartialEq>::eq\(\S*\.cat, adt:\S*ItemCat:(\w+)\{\}\)$", s)
        if m and isinstance(v, bool):
            # a comparison made before the cursor moved on (`let is_quoted = cat == Quoted` tested later)
            # says nothing about the item now
            c = _core_call(tt)
            cb = c[5] if c is not None and len(c) > 5 and isinstance(c[5], int) else None
            if cb is None:
                return st
            after = b.reach_from(cb) - {cb}
            if any(mb in after and bb in b.reach_from(mb) for mb in movers):
                return st
            if m.group(1) in ("None", "LineFeed"):
                return "drained" if v else st
            return "open" if v else st
        if s.endswith(".cat") and isinstance(v, tuple):
            if v[0] == "variant":
                return "drained" if v[1] in ("None", "LineFeed") else "open"
            if v[0] == "notvariant" and set(v[1]) >= {"Quoted", "Unquoted"}:
                return "drained"
            return st
        # the result of a full symbol read / a summarised helper was tested
        none = None
        subj = strip(tt, calls=False)
        if v == ("variant", "None"):
            none = True
        elif v == ("variant", "Some"):
            none = False
        elif isinstance(v, bool) and subj[0] == "call" and subj[1] and re.search(r"::(is_some|is_none)$", subj[1]) and subj[3]:
            none = v if subj[1].endswith("is_none") else (not v)
            subj = subj[3][0]
        c = _core_call(subj)
        if c is None:
            return st
        last = c[1].split("::")[-1]
        if none is not None and FULLREAD.search(c[1]):
            return "drained" if none else "open"
        if last in SUMMARISED and "EntryScanner" in c[1]:
            if none is True and "None" in SUMMARISED[last]:
                return "drained"
            if isinstance(v, bool) and s.endswith(" as Some).0") and ("Some(%s)" % ("true" if v else "false")) in SUMMARISED[last]:
                return "drained"
        return st

    return flow_states(b, F, "unknown", on_call, on_edge)


def rule_drain(ctx, F):
    R = "C07.drain"
    ctx.floor(R, 14)
    bodies = {p: b for p, b in F.bodies.items()
              if re.match(r"^<?zonefile::inplace::EntryScanner", p) and "::test" not in p and b.kind != "Closure"}
    consumers = {p for p, b in bodies.items()
                 if any(re.search(r"SourceBuf::next_item$", t["fn"] or "") for _, t in b.calls())
                 and any(SYMREAD.search(t["fn"] or "") or (t["fn"] or "").split("::")[-1] in SUMMARISED for _, t in b.calls())}
    for p in sorted(consumers):
        b = bodies[p]
        at = _drain_flow(b, F, consumers)
        if at is None:
            ctx.undecided_item(R, p, "configuration budget exhausted")
            continue
        k = 0
        for bi, t in b.calls():
            if not re.search(r"SourceBuf::next_item$", t["fn"] or "") or bi not in at:
                continue
            k += 1
            ctx.ob(R, b, "next_item#%d only after the token was read to its end" % k, "open" not in at[bi],
                   "%s calls next_item() on a path where the current token may not have been read to its end "
                   "(after require_token or a fast-path read that stopped early, with no full read returning None and "
                   "no test of the item category in between): the reader's 'token not completely read' assertion "
                   "panics on such input" % p.split("::")[-1], b.where(bi),
                   detail="states reaching the call: %s" % ", ".join(sorted(at[bi])))
    # the summaries the callers rely on
    for name, shapes in sorted(SUMMARISED.items()):
        hb = [b for p, b in bodies.items() if p.split("::")[-1] == name]
        if not ctx.anchor(R, "EntryScanner::%s" % name, len(hb) == 1):
            continue
        b = hb[0]
        at = _drain_flow(b, F, consumers)
        found = {}
        for bi, si, kind, term in return_assignments(b):
            if kind != "Ok" or term is None or at is None:
                continue
            s = show(term)
            shape = None
            if s.endswith("Option:None{}}"):
                shape = "None"
            elif s.endswith("Option:Some{0}}"):
                shape = "Some(false)"
            elif s.endswith("Option:Some{1}}"):
                shape = "Some(true)"
            if shape in shapes:
                found.setdefault(shape, []).append(at.get(bi, set()) <= {"drained"})
        for shape in shapes:
            ctx.ob(R, b, "returns %s only at the end of the token" % shape, bool(found.get(shape)) and all(found[shape]),
                   "%s returns %s on a path where the token has not been read to its end (callers go on to next_item())"
                   % (name, shape) if found.get(shape) else "%s has no return site of shape Ok(%s) any more: the summary "
                   "its callers are checked against is stale" % (name, shape), b.where())


def _peek_call(term):
    """the outermost Symbol::from_slice_index call a term is derived from"""
    for s in walk(term):
        if s[0] == "call" and s[1] and s[1].endswith("Symbol::from_slice_index"):
            return s
    return None


def rule_delim(ctx, F):
    R = "C07.delim"
    ctx.floor(R, 5)
    for p, b in sorted(F.bodies.items()):
        if not re.match(r"^zonefile::inplace::SourceBuf::", p) or "::test" in p:
            continue
        n = 0
        for bi in sorted(b.reachable_blocks()):
            for st in b.blocks[bi]["s"]:
                if st[0] != "=" or len(st[1]) < 2:
                    continue
                last = st[1][-1]
                if not (isinstance(last, (list, tuple)) and last[0] == "." and last[2] == "start"):
                    continue
                val = b.term_of_rvalue(st[2])
                pk = _peek_call(val)
                if pk is None:
                    continue            # start += 1 and friends: not the end of a peeked symbol
                n += 1
                bad = None
                for tt, v, _ in facts_at(b, bi, F):
                    ts = strip(tt, calls=False)
                    for f, fv in [(ts, v)] + ([(ts[2], not v)] if ts[0] == "un" and ts[1] == "Not" and isinstance(v, bool) else []):
                        if f[0] == "call" and f[1] and f[1].endswith("Symbol::is_word_char") and fv is False and f[3]:
                            sk = _peek_call(f[3][0])
                            if sk is not None and sk[5] == pk[5]:
                                bad = show(deep_strip(f))
                ctx.ob(R, b, "cursor store #%d to the end of a peeked symbol" % n, bad is None,
                       "%s moves the cursor past a symbol it has just found not to be a word character: the delimiter "
                       "(paren, semicolon, quote, line feed) is consumed without being interpreted by next_item"
                       % p.split("::")[-1], b.where(bi), detail=bad)


def _threshold(f, v):
    """smallest X for which the fact `f == v` holds, for f = cmp(X + c, K) in any spelling; (X term, value) or None"""
    if f[0] != "bin" or f[1] not in ("Gt", "Ge", "Lt", "Le") or not isinstance(v, bool):
        return None
    op, a, c = f[1], deep_strip(f[2]), deep_strip(f[3])
    ka, kc = const_value(a), const_value(c)
    if (ka is None) == (kc is None):
        return None
    if ka is not None:                      # K op X  ->  X op' K
        op = {"Gt": "Lt", "Ge": "Le", "Lt": "Gt", "Le": "Ge"}[op]
        a, kc = c, ka
    if not v:
        op = {"Gt": "Le", "Ge": "Lt", "Lt": "Ge", "Le": "Gt"}[op]
    if op not in ("Gt", "Ge"):
        return None                         # the fact bounds X from above: not a "too long" test
    thr = kc + 1 if op == "Gt" else kc
    while a[0] == "bin" and a[1] in ("Add", "Sub") and const_value(deep_strip(a[3])) is not None:
        k = const_value(deep_strip(a[3]))
        thr = thr - k if a[1] == "Add" else thr + k
        a = deep_strip(a[2])
    return a, thr


def _raw_cmp(b, sw):
    """the comparison a bool switch tests, with its variable side left opaque.  Terms resolve a local to its
    defining statement; the running length is a local updated through `&mut write` by convert_label, so its
    defining statement (`let mut write = 0`) is not its value at the comparison."""
    d = b.blocks[sw]["t"]["d"]
    if d[0] not in ("c", "m") or len(d[1]) != 1:
        return None
    ds = b.defs().get(d[1][0], [])
    if len(ds) != 1 or ds[0][0] != "stmt" or ds[0][3][0] != "bin":
        return None
    rv = ds[0][3]

    def side(op, depth=0):
        if op[0] == "k":
            return b.term_of_operand(op)
        if op[0] in ("c", "m") and len(op[1]) == 1 and depth < 3:
            dd = b.defs().get(op[1][0], [])
            if len(dd) == 1 and dd[0][0] == "stmt":
                r = dd[0][3]
                if r[0] == "bin" and r[1] in ("Add", "Sub", "AddWithOverflow", "SubWithOverflow") and r[3][0] == "k":
                    return ("bin", r[1].replace("WithOverflow", ""), side(r[2], depth + 1), b.term_of_operand(r[3]))
                if r[0] == "use" and r[1][0] in ("c", "m") and len(r[1][1]) == 1 and op[1][0] > b.nargs and b.var_name(op[1][0]) is None:
                    return side(r[1], depth + 1)
            return ("local", op[1][0])
        if op[0] in ("c", "m") and len(op[1]) == 2 and op[1][1][0] == "." and depth < 3:
            # (checked add).0
            dd = b.defs().get(op[1][0], [])
            if len(dd) == 1 and dd[0][0] == "stmt" and dd[0][3][0] == "bin" and dd[0][3][1].endswith("WithOverflow") and dd[0][3][3][0] == "k":
                r = dd[0][3]
                return ("bin", r[1].replace("WithOverflow", ""), side(r[2], depth + 1), b.term_of_operand(r[3]))
        return ("local", -1)

    return ("bin", rv[1], side(rv[2]), side(rv[3]))


def rule_len(ctx, F):
    R = "C07.len"
    b = _one(F, r"^<zonefile::inplace::EntryScanner<'_> as base::scan::Scanner>::scan_name$")
    if not ctx.anchor(R, "EntryScanner::scan_name", b):
        return
    bf = BranchFacts(b, F)
    n = 0
    for sw in sorted(b.reachable_blocks()):
        if b.blocks[sw]["t"]["k"] != "switch":
            continue
        for lab, (tt, v) in bf.edge_facts(sw).items():
            tgt = b.edge_target(sw, lab)
            # the edge goes straight to `return Err(bad_name())`
            hops = 0
            while tgt is not None and hops < 4 and b.blocks[tgt]["t"]["k"] == "goto" and not b.blocks[tgt]["s"]:
                tgt = b.blocks[tgt]["t"]["t"]
                hops += 1
            tt_ = b.blocks[tgt]["t"] if tgt is not None else None
            if not tt_ or tt_["k"] != "call" or not (tt_["fn"] or "").endswith("EntryError::bad_name"):
                continue
            th = _threshold(_raw_cmp(b, sw) or deep_strip(tt), v)
            if th is None:
                continue
            n += 1
            ctx.ob(R, b, "length check #%d rejects from 255 octets on" % n, th[1] == 255,
                   "scan_name answers `bad name` as soon as the assembled relative name reaches %d octets; the longest "
                   "legal absolute name has 254 octets before the root label, and the relative spelling of the same name "
                   "is bounded by chain() at 255 in total: the two spellings disagree" % th[1], b.where(sw),
                   detail="%s, error from %d" % (show(deep_strip(tt)), th[1]))
    ctx.ob(R, b, "scanned", True, nontrivial=False, detail="%d running length check(s) found" % n)


def _alts(t):
    t = strip(t, calls=False)
    if t[0] == "phi":
        out = []
        for a in t[2]:
            out.extend(_alts(a))
        return out
    return [t]


def rule_quote(ctx, F):
    R = "C07.quote"
    ctx.floor(R, 5)
    for p, b in sorted(F.bodies.items()):
        if not re.match(r"^<?zonefile::inplace::EntryScanner", p) or "::test" in p or b.kind == "Closure":
            continue
        fast = [bi for bi, t in b.calls() if re.search(r"SourceBuf::next_(ascii|char)_symbol$", t["fn"] or "")]
        if not fast:
            continue
        n = 0
        for bi, t in b.calls():
            if not (t["fn"] or "").endswith("SourceBuf::split_to") or len(t["args"]) < 2:
                continue
            alts = [deep_strip(a) for a in _alts(b.term_of_operand(t["args"][1]))]
            shown = [show(a) for a in alts]
            bare = any(re.search(r"\.buf\.start$", s) and not s.startswith(("Sub(", "Add(")) for s in shown)
            if not bare:
                continue
            n += 1
            sub1 = any(re.match(r"^Sub\((_\d+|\S*\.buf\.start), 1\)$", s) for s in shown)
            not_ended = False
            for tt, v, (sw, lab) in facts_at(b, bi, F):
                s = show(deep_strip(tt))
                if re.search(r"PartialEq>::eq\(\S*\.cat, adt:\S*ItemCat:None\{\}\)$", s) and v is False:
                    c = _core_call(tt)
                    if c is not None and any(c[5] in b.reach_from(f) for f in fast):
                        not_ended = True
                if s.endswith(".cat") and isinstance(v, tuple) and (v == ("notvariant", ("None",)) or (v[0] == "variant" and v[1] in ("Quoted", "Unquoted"))):
                    if any(sw in b.reach_from(f) for f in fast):
                        not_ended = True
            ctx.ob(R, b, "value extent #%d taken from the cursor" % n, sub1 or not_ended,
                   "%s ends a value at the cursor after a fast-path read: when that read ended a quoted token the cursor "
                   "is already past the closing quote, which becomes part of the value (the quoted and the unquoted "
                   "spelling of the same token differ)" % p.split("::")[-1], b.where(bi),
                   detail="extent alternatives: %s; %s" % (" | ".join(s[:60] for s in shown),
                                                           "token known not to have ended" if not_ended else "has cursor-1 alternative" if sub1 else "neither"))


NARROW = re.compile(r"^[ui](8|16|32|64|128)$")


def rule_ovf(ctx, F):
    R = "C07.ovf"
    scope = 0
    n = 0
    per = {}
    for p, b in sorted(F.bodies.items()):
        if "::test" in p or not re.search(r"::scan\w*(::<[^>]*>)?(::\{closure#\d+\})*$", p):
            continue
        if re.match(r"^<?zonefile::inplace::", p):
            continue        # cursor arithmetic on usize, bounded by the buffer
        scope += 1
        for bi in sorted(b.reachable_blocks()):
            t = b.blocks[bi]["t"]
            if t["k"] != "assert" or t["msg"][0] != "overflow" or t["msg"][1] not in ("Add", "Sub", "Mul"):
                continue
            ops = [t["msg"][2], t["msg"][3]]
            tys = []
            for o in ops:
                if o[0] == "k":
                    tys.append(o[1])
                elif o[0] in ("c", "m"):
                    tys.append(b.locals[o[1][0]] if len(o[1]) == 1 else None)
            if not any(ty and NARROW.match(ty) for ty in tys) and not all(ty is None for ty in tys):
                continue
            if all(o[0] == "k" for o in ops):
                continue
            terms = [deep_strip(b.term_of_operand(o)) for o in ops]
            # both operands bounded by construction: a digit (< radix) times / plus a constant
            def small(x):
                if const_value(x) is not None:
                    return True
                c = _core_call(x)
                return c is not None and re.search(r"::(to_digit|into_digit)$", c[1]) is not None and x[0] != "bin"
            if all(small(x) for x in terms):
                continue
            n += 1
            per[p] = per.get(p, 0) + 1
            ctx.ob(R, b, "%s#%d on a narrow integer" % (t["msg"][1], per[p]), False,
                   "overflow-checked %s on a fixed-width integer in a scan function: a token whose value overflows here "
                   "panics the reader in debug builds and wraps in release builds instead of giving an error"
                   % t["msg"][1], b.where(bi), detail=" , ".join(show(x)[:80] for x in terms))
    ctx.ob(R, "scan functions", "scanned", scope >= 150, "only %d scan functions/closures found: the scope of the rule "
           "collapsed" % scope, nontrivial=False, detail="%d scan functions and closures examined, %d narrow arithmetic site(s)" % (scope, n))


AUDIT = {
    ("scan_at_record", "chain"): "chaining the empty relative name onto an origin cannot exceed the name length limit",
    ("scan_name", "chain"): "RelativeName::empty().chain(Name::root()): constant operands, cannot fail",
    ("skip_at_token", "unreachable"): "categoriser typestate: only called from _scan_entry after next_item produced an "
                                      "Unquoted/Quoted item (the match arm on ItemCat::None | LineFeed above it returned)",
    ("next_ascii_symbol", "unreachable"): "categoriser typestate: symbols are read only while a token is open "
                                          "(callers go through require_token / the Unquoted|Quoted arm)",
}


# ---------------------------------------------------------------------------
# decimal escapes: every digit is checked before it is used
# ---------------------------------------------------------------------------

def rule_digit(ctx, F):
    R = "C07.digit"
    ctx.floor(R, 3)
    b = _one(F, r"^base::scan::Symbol::from_slice_index$")
    if not ctx.anchor(R, "Symbol::from_slice_index", b):
        return
    n = 0
    for bi in sorted(b.reachable_blocks()):
        t = b.blocks[bi]["t"]
        if t["k"] != "assert" or t["msg"][0] != "overflow" or t["msg"][1] != "Sub":
            continue
        if const_value(b.term_of_operand(t["msg"][3])) != 0x30:
            continue
        n += 1
        x = deep_strip(b.term_of_operand(t["msg"][2]))
        ok = False
        for tt, vv in bool_facts(b, bi, F):
            if tt[0] == "call" and (tt[1] or "").endswith("is_ascii_digit") and vv is True and tt[3]:
                if _same_value(deep_strip(tt[3][0]), x):
                    ok = True
        ctx.ob(R, b, "digit#%d of a decimal escape is checked before `- b'0'`" % n, ok,
               "Symbol::from_slice_index subtracts b'0' from an octet of the input without a dominating "
               "is_ascii_digit() on that octet: `\\12x` underflows (panic in debug builds, a wrong octet in release "
               "builds) instead of being reported as a bad escape", b.where(bi))
    ctx.anchor(R, "three digit subtractions in the escape decoder", n >= 3, b.where())


def _same_value(a, c):
    from rulelib import canon_nobb
    if canon_nobb(a) == canon_nobb(c):
        return True
    # one side may be a by-value copy of what the other side borrows
    sa, sc = show(a), show(c)
    return sa == sc or sa in sc or sc in sa


# ---------------------------------------------------------------------------
# fast path / slow path agreement on where a token ends
# ---------------------------------------------------------------------------

def rule_fast(ctx, F):
    R = "C07.fast"
    ctx.floor(R, 2)
    import c06
    b = _one(F, r"^zonefile::inplace::SourceBuf::next_ascii_symbol$")
    if not ctx.anchor(R, "SourceBuf::next_ascii_symbol", b):
        return

    def subj(t):
        t = deep_strip(t)
        while t[0] == "cast":
            t = deep_strip(t[2])
        s = show(t)
        return "get(" in s and "Some" in s
    parts = c03.byte_partition(b, F, subj)
    if not ctx.anchor(R, "octet classification of next_ascii_symbol", bool(parts), b.where()):
        return
    bf = BranchFacts(b, F)
    # per token category: octets for which Some(ch) is returned
    passed = {"Unquoted": set(), "Quoted": set()}
    for octs, leaf, path in parts:
        blocks = list(path) + [leaf]
        cat = None
        for i, bb in enumerate(blocks[:-1]):
            t = b.blocks[bb]["t"]
            if t["k"] == "switch":
                ef = bf.edge_facts(bb)
                for s, lab in b.succs(bb):
                    if s == blocks[i + 1] and lab in ef and isinstance(ef[lab][1], tuple) and ef[lab][1][0] == "variant":
                        if ef[lab][1][1] in passed:
                            cat = ef[lab][1][1]
        some = False
        for bb in blocks:
            for st in b.blocks[bb]["s"]:
                if st[0] == "=" and st[1] == [0] and st[2][0] == "agg" and st[2][1][0] == "adt" and st[2][1][2] == "Ok":
                    inner = deep_strip(b.term_of_operand(st[2][2][0]))
                    if inner[0] == "agg" and inner[1][:3] == ("adt", "core::option::Option", "Some"):
                        some = True
        if some and cat:
            passed[cat] |= octs
    delim = c06.reader_delimiters(F)
    if not ctx.anchor(R, "reader delimiter set (Symbol::is_word_char)", bool(delim), b.where()):
        return
    stops = set(range(256)) - passed["Unquoted"]
    want = set(delim) | {0x5C} | set(range(0x21)) | set(range(0x80, 256))
    ctx.ob(R, b, "in an unquoted token the fast path stops at every special octet", want <= stops,
           "SourceBuf::next_ascii_symbol passes %s through as ordinary token characters although the item categoriser / "
           "Symbol::is_word_char end an unquoted token there (or start an escape): a comment or group directly after a token "
           "is read as part of it" % _fmt(want - stops))
    ctx.ob(R, b, "in an unquoted token the fast path passes every ordinary octet", not (stops - want - {0x7F}),
           "SourceBuf::next_ascii_symbol refuses %s although they are ordinary token characters" % _fmt(stops - want - {0x7F}),
           nontrivial=False)
    qstops = set(range(256)) - passed["Quoted"]
    ctx.ob(R, b, "in a quoted token the fast path stops at the quote and the escape character", {0x22, 0x5C} <= qstops,
           "next_ascii_symbol passes `\"` or `\\` through inside a quoted token")
    # the octets the fast path hands out as token characters must be ones the slow path
    # (Symbol::Char(ch).into_octet / into_ascii) converts as well: otherwise the same octet is accepted
    # in a token without an escape and rejected in a token with one
    for conv in ("into_octet", "into_ascii"):
        cb = _one(F, r"^base::scan::Symbol::%s$" % conv)
        if not ctx.anchor(R, "Symbol::%s" % conv, cb):
            continue
        cparts = c03.byte_partition(cb, F, lambda t: show(deep_strip(t)) == "(arg1 as Char).0")
        okset = set()
        for octs, leaf, path in cparts:
            blocks = list(path) + [leaf]
            isok = any(st[0] == "=" and st[1] == [0] and st[2][0] == "agg" and st[2][1][0] == "adt" and st[2][1][2] == "Ok"
                       for bb in blocks for st in cb.blocks[bb]["s"])
            on_char = False
            cbf = BranchFacts(cb, F)
            for i, bb in enumerate(blocks[:-1]):
                if cb.blocks[bb]["t"]["k"] == "switch":
                    ef = cbf.edge_facts(bb)
                    for s_, lab in cb.succs(bb):
                        if s_ == blocks[i + 1] and lab in ef and ef[lab][1] == ("variant", "Char"):
                            on_char = True
            if isok and on_char:
                okset |= octs
        if not ctx.anchor(R, "octets Symbol::%s accepts as plain characters" % conv, len(okset) > 0x40, cb.where()):
            continue
        for cat in ("Unquoted", "Quoted"):
            extra = passed[cat] - okset
            ctx.ob(R, b, "%s: fast-path characters are characters Symbol::%s accepts" % (cat.lower(), conv), not extra,
                   "in a%s token SourceBuf::next_ascii_symbol passes %s through as token characters, but the escape-decoding "
                   "path rejects them (Symbol::%s): the same octet is accepted in a token without an escape and "
                   "`bad symbol` in a token with one" % ("n unquoted" if cat == "Unquoted" else " quoted", _fmt(extra), conv))


# ---------------------------------------------------------------------------
# C07.utf8: no overlong forms
# ---------------------------------------------------------------------------

def rule_utf8(ctx, F):
    R = "C07.utf8"
    ctx.floor(R, 3)
    b = _one(F, r"^base::scan::Symbol::from_slice_index$")
    if not ctx.anchor(R, "Symbol::from_slice_index", b):
        return
    n = 0
    for bi in sorted(b.reachable_blocks()):
        if b.blocks[bi].get("c"):
            continue
        for st in b.blocks[bi]["s"]:
            if not (st[0] == "=" and st[2][0] == "agg" and st[2][1][0] == "adt" and st[2][1][1].endswith("scan::Symbol") and "Char" in str(st[2][1])):
                continue
            tm = deep_strip(b.term_of_rvalue(st[2]))
            shifts = [const_value(deep_strip(s[3])) for s in walk(tm) if s[0] == "bin" and s[1].replace("Unchecked", "") == "Shl"]
            shifts = [x for x in shifts if x is not None]
            if not shifts:
                continue                    # the one-octet case
            n += 1
            need = {6: 0x80, 12: 0x800, 18: 0x10000}.get(max(shifts))
            ok = False
            for tt, vv in bool_facts(b, bi, F):
                tt = deep_strip(tt)
                if tt[0] == "bin" and tt[1] in ("Lt", "Ge", "Le", "Gt") and isinstance(vv, bool):
                    a, c = const_value(deep_strip(tt[2])), const_value(deep_strip(tt[3]))
                    other = tt[3] if a is not None else tt[2]
                    if not any(s[0] == "bin" and s[1].replace("Unchecked", "") in ("Shl", "BitOr") for s in walk(deep_strip(other))):
                        continue            # a test of one octet (`c1 < 128`), not of the assembled value
                    # value >= need  in one of its spellings
                    if (tt[1] == "Lt" and c == need and vv is False) or (tt[1] == "Ge" and c == need and vv is True) or \
                            (tt[1] == "Gt" and c == need - 1 and vv is True) or (tt[1] == "Le" and c == need - 1 and vv is False) or \
                            (tt[1] == "Gt" and a == need and vv is False) or (tt[1] == "Le" and a == need and vv is True):
                        ok = True
            ctx.ob(R, b, "a %d-octet sequence must encode a value >= 0x%X" % ({6: 2, 12: 3, 18: 4}[max(shifts)], need), ok,
                   "Symbol::from_slice_index returns a character assembled from %d octets without checking that it needs that many "
                   "(overlong form): `C0 A0` is read as a blank by the token scanner while the item categoriser sees the octet 0xC0 "
                   "and starts a token there -- convert_entry makes no progress and never returns; `$INCLUDE \\xC1\\x81file` "
                   "yields a Str that is not UTF-8" % {6: 2, 12: 3, 18: 4}[max(shifts)], b.where(bi))


def rule_at(ctx, F):
    R = "C07.at"
    ctx.floor(R, 2)
    bs = [b for p, b in F.bodies.items() if re.match(r"^<zonefile::inplace::EntryScanner<'_> as base::scan::Scanner>::scan_name$", p)]
    ow = [b for p, b in F.bodies.items() if re.match(r"^zonefile::inplace::EntryScanner::<.*>::_scan_entry$", p)]
    if not ctx.anchor(R, "EntryScanner::scan_name", len(bs) == 1):
        return
    b = bs[0]
    conv = [bb for bb, tt in b.calls() if re.search(r"::convert_label$", tt["fn"] or "")]
    at = [bb for bb, tt in b.calls() if re.search(r"SourceBuf::skip_at_token$", tt["fn"] or "")]
    if not ctx.anchor(R, "label conversion in scan_name", len(conv) >= 1, b.where()):
        return
    ctx.ob(R, b, "a name in record data may be written `@`", bool(at) and all(any(b.dominates(a, c) for a in at) for c in conv),
           "EntryScanner::scan_name converts the token label by label without first asking whether it is a free-standing `@`: "
           "`www CNAME @` gives the name `@.example.com.` instead of the origin (the owner position handles it)", b.where(conv[0]))
    if ow:
        ctx.ob(R, ow[0], "the owner position recognises `@`", any(re.search(r"skip_at_token$", tt["fn"] or "") for _, tt in ow[0].calls()),
               "scan_entry no longer asks skip_at_token for the owner")


def rule_wordset(ctx, F):
    R = "C07.wordset"
    ctx.floor(R, 1)
    import c06
    delim = c06.reader_delimiters(F)
    b = _one(F, r"^zonefile::inplace::SourceBuf::next_item$")
    if not ctx.anchor(R, "Symbol::is_word_char / SourceBuf::next_item", delim is not None and b is not None):
        return

    def subj(t):
        t = deep_strip(t)
        while t[0] == "cast":
            t = deep_strip(t[2])
        s = show(t)
        return "get(" in s and "Some" in s
    parts = c03.byte_partition(b, F, subj)
    if not ctx.anchor(R, "octet classification of next_item", bool(parts), b.where()):
        return
    # octets for which next_item does *not* start an unquoted token
    unq = set()
    for octs, leaf, path in parts:
        for bb in list(path) + [leaf]:
            for st in b.blocks[bb]["s"]:
                if st[0] == "=" and len(st[1]) >= 3 and isinstance(st[1][-1], list) and st[1][-1][0] == "." and st[1][-1][2] == "cat":
                    rv = deep_strip(b.term_of_rvalue(st[2]))
                    if rv[0] == "agg" and rv[1][2] == "Unquoted":
                        unq |= set(octs)
    special = set(range(256)) - unq
    dl = {d for d in delim if d < 128}
    ctx.ob(R, b, "token-ending characters == octets the item categoriser treats specially", dl == special,
           "Symbol::is_word_char ends a token at %s while SourceBuf::next_item treats %s specially: an octet in one set only "
           "(%s) ends a token without being consumed and starts the next one at the same position -- convert_entry never "
           "returns" % (_fmt(dl), _fmt(special), _fmt(dl ^ special)))


def rule_eof(ctx, F):
    R = "C07.eof"
    ctx.floor(R, 1)
    bs = [b for p, b in F.bodies.items() if re.match(r"^zonefile::inplace::Zonefile::load(::<.*>)?$", p)]
    if not ctx.anchor(R, "Zonefile::load", len(bs) == 1):
        return
    b = bs[0]
    cp = [bb for bb, tt in b.calls() if re.search(r"std::io::copy(::<.*>)?$|io::copy::copy(::<.*>)?$", tt["fn"] or "")]
    if not ctx.anchor(R, "io::copy in Zonefile::load", len(cp) == 1, b.where()):
        return
    term = False
    for bb, tt in b.calls():
        if not b.dominates(cp[0], bb):
            continue
        fn = tt["fn"] or ""
        if re.search(r"extend_from_slice$|put_u8$|BufMut::put_slice$|::push$|Write::write_all$", fn):
            for a in tt["args"][1:]:
                tm = deep_strip(b.term_of_operand(a))
                if const_value(tm) == 10 or "\\n" in show(tm) or re.search(r"\b10\b", show(tm)):
                    term = True
    ctx.ob(R, b, "a source without a final line feed is given one", term,
           "Zonefile::load copies its source into the buffer as it is: the reader only ends an entry at a line feed and reports "
           "the end of the buffer as `short buffer` (more data may be appended), so the last record of a file that does not end "
           "in a newline is lost with an error (`a A 192.0.2.1` at the end of the file: `1:14: short buffer`)", b.where(cp[0]))


def rule_step(ctx, F):
    """SourceBuf::next_item looks at one octet at a time: every advance of its cursor is by exactly one octet.  A loop
    that steps over two (to "skip an escape" inside a comment, say) can step over the line feed that ends the comment --
    and the next line with it."""
    R = "C07.step"
    ctx.floor(R, 4)
    b = F.one_body(r"^zonefile::inplace::SourceBuf::next_item$")
    if not ctx.anchor(R, "SourceBuf::next_item", b):
        return
    n = 0
    for bi in sorted(b.reachable_blocks()):
        if b.blocks[bi].get("c"):
            continue
        for st in b.blocks[bi]["s"]:
            if st[0] == "=" and len(st[1]) > 1 and deep_strip(b.term_of_place(st[1])) == ("field", ("arg", 1), "start"):
                tm = deep_strip(b.term_of_rvalue(st[2]))
                n += 1
                ok = tm[0] == "bin" and tm[1].startswith("Add") and deep_strip(tm[2]) in (("field", ("arg", 1), "start"),) \
                    and const_value(deep_strip(tm[3])) == 1
                if not ok and tm[0] == "bin" and tm[1].startswith("Add"):
                    # `start + 1` seen through the phi of the field (multiply assigned in the loop)
                    l = deep_strip(tm[2])
                    ok = const_value(deep_strip(tm[3])) == 1 and (l[0] in ("phi", "field"))
                ctx.ob(R, b, "cursor advance #%d is by one octet" % n, ok,
                       "next_item moves its cursor by %s: more than one octet at a time skips octets unseen -- inside a comment the "
                       "line feed that ends it (a comment ending in a backslash then swallows the next line)" % show(tm)[:80], b.where(bi))
    ctx.ob(R, b, "cursor advances found", n >= 4, "expected the cursor advances of next_item, found %d" % n, nontrivial=False)


def rule_nocopy(ctx, F):
    """convert_label converts a label in place.  Its no-copy fast path is taken only when the write cursor *is* the read
    cursor (nothing was shortened so far): the guard is an equality -- with `<=` the path is also taken after an
    earlier escape has left the write cursor behind, and later labels keep stale octets."""
    R = "C07.nocopy"
    ctx.floor(R, 1)
    b = F.one_body(r"^zonefile::inplace::EntryScanner::<'_>::convert_label$")
    if not ctx.anchor(R, "EntryScanner::convert_label", b):
        return
    hits = []
    for bi in sorted(b.reachable_blocks()):
        blk = b.blocks[bi]
        env = {}
        for st in blk["s"]:
            if st[0] != "=" or len(st[1]) != 1:
                continue
            rv = st[2]
            if rv[0] == "use" and rv[1][0] in ("c", "m"):
                env[st[1][0]] = rv[1][1]
            if rv[0] == "bin" and rv[1] in ("Eq", "Ne", "Le", "Lt", "Ge", "Gt"):
                ops = []
                for o in (rv[2], rv[3]):
                    pl = env.get(o[1][0], o[1]) if o[0] in ("c", "m") and len(o[1]) == 1 else (o[1] if o[0] in ("c", "m") else None)
                    ops.append(pl)
                def is_write(pl):
                    return pl is not None and pl[0] == 2 and "*" in pl
                def is_start(pl):
                    return pl is not None and any(isinstance(x, list) and x[0] == "." and x[2] == "start" for x in pl[1:]) and \
                        any(isinstance(x, list) and x[0] == "." and x[2] == "buf" for x in pl[1:])
                if (is_write(ops[0]) and is_start(ops[1])) or (is_write(ops[1]) and is_start(ops[0])):
                    hits.append((bi, rv[1]))
    if not ctx.anchor(R, "comparison of the write cursor with the read cursor in convert_label", len(hits) >= 1, b.where()):
        return
    for bi, op in hits:
        ctx.ob(R, b, "the no-copy path needs write == read", op in ("Eq", "Ne"),
               "convert_label compares the write cursor with the buffer's read position with `%s`: only equality says that "
               "nothing has been moved yet; otherwise labels behind an escaped one are measured but not copied and the name "
               "comes out with stale octets (`m\\\\097il.example.com.` reads as `mail.il\\\\.exam...`)" % op, b.where(bi))


def rule_linestart(ctx, F):
    """Positions in errors are `start + 1 - line_start`, with `line_start` the index *behind* the last line feed.  Where a
    SourceBuf method records a new line (`self.line_start = self.start as isize`), it has already moved `start` over
    the line feed it just read: between the read of the current octet / symbol at `self.start` and the store to
    `line_start` lies a store to `self.start`.  (Recording first puts the line feed itself in column 1 and every
    later column of that line is one too large.)"""
    R = "C07.linestart"
    ctx.floor(R, 2)
    n = 0

    def is_field(pl, name):
        return isinstance(pl, list) and len(pl) == 3 and pl[0] == 1 and pl[1] == "*" and isinstance(pl[2], list) and pl[2][0] == "." and pl[2][2] == name

    for p, b in sorted(F.bodies.items()):
        if "::test" in p or not re.match(r"^zonefile::inplace::SourceBuf::\w+$", p):
            continue
        starts = []
        lines = []
        for bi in b.reachable_blocks():
            for si, st in enumerate(b.blocks[bi]["s"]):
                if st[0] != "=":
                    continue
                if is_field(st[1], "start"):
                    starts.append((bi, si))
                if is_field(st[1], "line_start") and st[2][0] == "cast":
                    lines.append((bi, si))
        if not lines:
            continue
        reads = [bb for bb, t in b.calls() if re.search(r"Symbol::from_slice_index$|slice::<impl \[T\]>::get$", t["fn"] or "")
                 and any(s[0] == "field" and s[2] == "start" for a in t["args"] for s in walk(deep_strip(b.term_of_operand(a))))]
        for lb, ls in lines:
            n += 1
            ok = False
            for sb, ss in starts:
                after_read = any(b.dominates(rb, sb) for rb in reads)
                before_line = (sb == lb and ss < ls) or (sb != lb and b.dominates(sb, lb))
                if after_read and before_line:
                    ok = True
            ctx.ob(R, b, "a new line is recorded after `start` has moved over the line feed", ok,
                   "%s stores `line_start = start` without having advanced `start` past the line feed it read: the line feed "
                   "counts as column 1 of the new line and the position in every later error on that line is one column too large"
                   % p.split("::")[-1], b.where(lb))
    ctx.call_sites += n


def rule_stepback(ctx, F):
    """scan_string converts escapes in place and moves its write cursor one back to drop the closing quote -- which is
    only behind the cursor when the quoted token *has ended* in the run over unescaped symbols (`cat == None`).  If the
    run stopped at an escape instead, the octet before the cursor is content.  The decrement is dominated by both
    facts: the token was quoted, and the token has ended."""
    R = "C07.stepback"
    ctx.floor(R, 1)
    b = F.one_body(r"^<zonefile::inplace::EntryScanner<'_> as base::scan::Scanner>::scan_string$")
    if not ctx.anchor(R, "EntryScanner::scan_string", b):
        return
    n = 0
    for bi in sorted(b.reachable_blocks()):
        for st in b.blocks[bi]["s"]:
            if not (st[0] == "=" and st[2][0] in ("bin", "checked") and str(st[2][1]).startswith("Sub")):
                continue
            k = const_value(deep_strip(b.term_of_operand(st[2][3])))
            if k != 1:
                continue
            n += 1
            quoted = ended = False
            for s, o in outcome_facts(b, bi, F):
                sh = show(deep_strip(s))
                if o is True and "PartialEq" in sh and ".cat" in sh:
                    quoted = quoted or "ItemCat:Quoted" in sh
                    ended = ended or "ItemCat:None" in sh
            ctx.ob(R, b, "the write cursor steps back over the closing quote only when the quoted token has ended", quoted and ended,
                   "scan_string moves its write cursor back by one %s: when the leading run of plain symbols stops at an escape, the "
                   "octet before the cursor is the last plain character, and it is overwritten (\"ab\\\\.c\" reads as a.c)"
                   % ("without knowing that the token has ended (cat == None)" if quoted else "on a path where the token is not known to be quoted"),
                   b.where(bi))
    ctx.anchor(R, "the decrement of the write cursor in scan_string", n >= 1, b.where())
