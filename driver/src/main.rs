//! domain-facts: a rustc_private driver that dumps the type-checked program
//! (mir_built bodies + item tables + evaluated constants) of the `domain`
//! crate as JSON lines, for the Python rule engine in /verif/rules.
//!
//! Invoked through RUSTC_WORKSPACE_WRAPPER (argv[1] is the real rustc path and
//! is dropped).  Output file: $DOMAIN_FACTS_OUT (one write, at the end).
#![feature(rustc_private)]
#![allow(clippy::all)]

extern crate rustc_abi;
extern crate rustc_driver;
extern crate rustc_hir;
extern crate rustc_interface;
extern crate rustc_middle;
extern crate rustc_session;
extern crate rustc_span;

mod json;
mod dump;

use std::sync::{Mutex, OnceLock};

use rustc_driver::{Callbacks, Compilation};
use rustc_interface::interface;
use rustc_middle::mir::Body;
use rustc_middle::ty::TyCtxt;
use rustc_middle::util::Providers;
use rustc_session::Session;
use rustc_span::def_id::LocalDefId;

type MirBuiltFn = for<'tcx> fn(
    TyCtxt<'tcx>,
    LocalDefId,
) -> &'tcx rustc_data_structures_steal::Steal<Body<'tcx>>;

mod rustc_data_structures_steal {
    extern crate rustc_data_structures;
    pub use rustc_data_structures::steal::Steal;
}

static DEFAULT_MIR_BUILT: OnceLock<MirBuiltFn> = OnceLock::new();

/// Bodies cloned right after `mir_built` produced them (lifetime erased; they
/// are only used while the `TyCtxt` is alive, in `after_analysis`).
static BODIES: Mutex<Vec<(LocalDefId, usize)>> = Mutex::new(Vec::new());

fn mir_built_wrapper<'tcx>(
    tcx: TyCtxt<'tcx>,
    def: LocalDefId,
) -> &'tcx rustc_data_structures_steal::Steal<Body<'tcx>> {
    let f = DEFAULT_MIR_BUILT.get().expect("default provider saved");
    let steal = f(tcx, def);
    {
        let body: Body<'tcx> = steal.borrow().clone();
        let boxed: Box<Body<'tcx>> = Box::new(body);
        let ptr = Box::into_raw(boxed) as usize;
        BODIES.lock().unwrap().push((def, ptr));
    }
    steal
}

fn override_queries(_sess: &Session, providers: &mut Providers) {
    let _ = DEFAULT_MIR_BUILT.set(providers.queries.mir_built);
    providers.queries.mir_built = mir_built_wrapper;
}

struct Facts {
    active: bool,
}

impl Callbacks for Facts {
    fn config(&mut self, config: &mut interface::Config) {
        if self.active {
            config.override_queries = Some(override_queries);
        }
    }

    fn after_analysis<'tcx>(
        &mut self,
        _compiler: &interface::Compiler,
        tcx: TyCtxt<'tcx>,
    ) -> Compilation {
        if !self.active {
            return Compilation::Continue;
        }
        let out = match std::env::var("DOMAIN_FACTS_OUT") {
            Ok(p) => p,
            Err(_) => return Compilation::Continue,
        };
        // Make sure every body has been built (check builds do this already
        // through borrowck, but be explicit).
        for def in tcx.hir_body_owners() {
            let _ = tcx.ensure_ok().mir_built(def);
        }
        let bodies: Vec<(LocalDefId, usize)> =
            std::mem::take(&mut *BODIES.lock().unwrap());
        let mut w = String::with_capacity(256 << 20);
        dump::dump_items(tcx, &mut w);
        let mut n = 0usize;
        for (def, ptr) in bodies {
            // SAFETY: pointer produced by Box::into_raw above from a
            // Body<'tcx> of this very TyCtxt.
            let body: Box<Body<'tcx>> =
                unsafe { Box::from_raw(ptr as *mut Body<'tcx>) };
            dump::dump_body(tcx, def, &body, &mut w);
            n += 1;
        }
        w.push_str(&format!("{{\"rec\":\"end\",\"bodies\":{}}}\n", n));
        std::fs::write(&out, w).expect("write facts");
        Compilation::Continue
    }
}

fn main() {
    let mut args: Vec<String> = std::env::args().collect();
    // RUSTC_WORKSPACE_WRAPPER: argv[1] is the path of the real rustc.
    if args.len() > 1 && (args[1].ends_with("rustc") || args[1].contains("/rustc")) {
        args.remove(1);
    }
    let want = std::env::var("DOMAIN_FACTS_CRATE").unwrap_or_else(|_| "domain".to_string());
    let mut crate_name = None;
    let mut it = args.iter();
    while let Some(a) = it.next() {
        if a == "--crate-name" {
            crate_name = it.next().cloned();
        }
    }
    let is_probe = args.iter().any(|a| a.starts_with("--print") || a == "-vV" || a == "-V");
    let active = !is_probe && crate_name.as_deref() == Some(want.as_str());
    let mut cb = Facts { active };
    rustc_driver::run_compiler(&args, &mut cb);
}
