//! Serialisation of items and MIR bodies to JSON lines.

use crate::json::{arr, opt_n, opt_s, s};

use rustc_hir::def::DefKind;
use rustc_middle::mir::{
    AggregateKind, AssertKind, BasicBlock, Body, BorrowKind, Const, ConstValue, Operand, Place,
    PlaceTy, ProjectionElem, Rvalue, StatementKind, TerminatorKind, UnwindAction,
    VarDebugInfoContents,
};
use rustc_middle::ty::print::with_no_trimmed_paths;
use rustc_middle::ty::{self, Instance, Ty, TyCtxt, TypingEnv};
use rustc_span::def_id::{DefId, LocalDefId};
use rustc_span::hygiene::ExpnKind;
use rustc_span::Span;

fn path(tcx: TyCtxt<'_>, def: DefId) -> String {
    with_no_trimmed_paths!(tcx.def_path_str(def))
}

fn tys(ty: Ty<'_>) -> String {
    with_no_trimmed_paths!(ty.to_string())
}

fn file_line(tcx: TyCtxt<'_>, span: Span) -> (String, usize) {
    let sm = tcx.sess.source_map();
    let d = sm.span_to_diagnostic_string(span);
    // "<file>:<l>:<c>: <l>:<c>"
    let file = d.split(':').next().unwrap_or("").to_string();
    let line = if span.is_dummy() { 0 } else { sm.lookup_char_pos(span.lo()).line };
    (file, line)
}

/// Returns (outermost call-site span, list of expansion names innermost first).
fn expansion(span: Span) -> (Span, Vec<String>) {
    let mut sp = span;
    let mut v = Vec::new();
    let mut guard = 0;
    while sp.from_expansion() && guard < 16 {
        let d = sp.ctxt().outer_expn_data();
        match d.kind {
            ExpnKind::Macro(_, name) => v.push(name.to_string()),
            ExpnKind::Desugaring(k) => v.push(format!("desugar:{:?}", k)),
            ExpnKind::AstPass(p) => v.push(format!("astpass:{:?}", p)),
            ExpnKind::Root => break,
        }
        sp = d.call_site;
        guard += 1;
    }
    (sp, v)
}

fn span_json(tcx: TyCtxt<'_>, span: Span) -> (usize, Option<String>) {
    let (outer, exp) = expansion(span);
    let line = if outer.is_dummy() { 0 } else { tcx.sess.source_map().lookup_char_pos(outer.lo()).line };
    let x = if exp.is_empty() { None } else { Some(arr(&exp.iter().map(|e| s(e)).collect::<Vec<_>>())) };
    (line, x)
}

// ---------------------------------------------------------------------------
// Items
// ---------------------------------------------------------------------------

fn vis_str(tcx: TyCtxt<'_>, def: DefId) -> String {
    match tcx.visibility(def) {
        ty::Visibility::Public => "pub".to_string(),
        ty::Visibility::Restricted(m) => {
            if m.is_crate_root() {
                "crate".to_string()
            } else {
                format!("in:{}", path(tcx, m))
            }
        }
    }
}

fn const_value_json<'tcx>(tcx: TyCtxt<'tcx>, val: ConstValue, ty: Ty<'tcx>) -> Option<String> {
    match val {
        ConstValue::Scalar(sc) => {
            let si = sc.try_to_scalar_int().ok()?;
            Some(format!("{}", si.to_bits_unchecked()))
        }
        ConstValue::ZeroSized => Some("null".to_string()),
        ConstValue::Slice { .. } => {
            let _ = ty;
            let bytes = val.try_get_slice_bytes_for_diagnostics(tcx)?;
            Some(arr(&bytes.iter().map(|b| b.to_string()).collect::<Vec<_>>()))
        }
        ConstValue::Indirect { alloc_id, offset } => {
            let (elem, len) = match ty.kind() {
                ty::Array(e, n) => (*e, n.try_to_target_usize(tcx)? as usize),
                _ => return None,
            };
            if len > 4096 {
                return None;
            }
            let alloc = tcx.global_alloc(alloc_id).unwrap_memory();
            let start = offset.bytes() as usize;
            // arrays of integers / chars (alphabet tables and the like)
            let esize = match elem.kind() {
                ty::Uint(ty::UintTy::U8) | ty::Int(ty::IntTy::I8) | ty::Bool => Some(1usize),
                ty::Uint(ty::UintTy::U16) | ty::Int(ty::IntTy::I16) => Some(2),
                ty::Uint(ty::UintTy::U32) | ty::Int(ty::IntTy::I32) | ty::Char => Some(4),
                ty::Uint(ty::UintTy::U64) | ty::Int(ty::IntTy::I64) => Some(8),
                _ => None,
            };
            if let Some(es) = esize {
                let bytes = alloc
                    .inner()
                    .inspect_with_uninit_and_ptr_outside_interpreter(start..start + len * es);
                let mut vals = Vec::with_capacity(len);
                for i in 0..len {
                    let mut v: u64 = 0;
                    for j in (0..es).rev() {
                        v = (v << 8) | bytes[i * es + j] as u64;
                    }
                    vals.push(v.to_string());
                }
                return Some(arr(&vals));
            }
            // arrays of &str / &[u8]: one wide pointer per element
            let is_slice_ref = match elem.kind() {
                ty::Ref(_, inner, _) => inner.is_str() || matches!(inner.kind(), ty::Slice(e) if matches!(e.kind(), ty::Uint(ty::UintTy::U8))),
                _ => false,
            };
            if is_slice_ref {
                let psz = tcx.data_layout.pointer_size().bytes();
                let mut vals = Vec::with_capacity(len);
                for i in 0..len {
                    let cv = ConstValue::Indirect {
                        alloc_id,
                        offset: offset + rustc_abi::Size::from_bytes(i as u64 * 2 * psz),
                    };
                    let b = cv.try_get_slice_bytes_for_diagnostics(tcx)?;
                    vals.push(arr(&b.iter().map(|x| x.to_string()).collect::<Vec<_>>()));
                }
                return Some(arr(&vals));
            }
            None
        }
    }
}

pub fn dump_items<'tcx>(tcx: TyCtxt<'tcx>, w: &mut String) {
    let krate = tcx.crate_name(rustc_span::def_id::LOCAL_CRATE).to_string();
    w.push_str(&format!("{{\"rec\":\"crate\",\"name\":{}}}\n", s(&krate)));
    let eff = tcx.effective_visibilities(());
    for ldef in tcx.hir_crate_items(()).definitions() {
        let def = ldef.to_def_id();
        let kind = tcx.def_kind(def);
        match kind {
            DefKind::Struct | DefKind::Enum | DefKind::Union => {
                let adt = tcx.adt_def(def);
                let mut variants = Vec::new();
                for v in adt.variants() {
                    let mut fields = Vec::new();
                    for f in &v.fields {
                        let fty = tcx.type_of(f.did).instantiate_identity().skip_normalization();
                        fields.push(format!(
                            "{{\"name\":{},\"ty\":{},\"vis\":{}}}",
                            s(&f.name.to_string()),
                            s(&tys(fty)),
                            s(&vis_str(tcx, f.did))
                        ));
                    }
                    variants.push(format!(
                        "{{\"name\":{},\"fields\":{}}}",
                        s(&v.name.to_string()),
                        arr(&fields)
                    ));
                }
                let discrs: Vec<String> = if adt.is_enum() {
                    adt.discriminants(tcx).map(|(_, d)| d.val.to_string()).collect()
                } else {
                    Vec::new()
                };
                let (file, line) = file_line(tcx, tcx.def_span(def));
                let (_, exp) = span_json(tcx, tcx.def_span(def));
                w.push_str(&format!(
                    "{{\"rec\":\"adt\",\"path\":{},\"kind\":{},\"vis\":{},\"reachable\":{},\"variants\":{},\"discrs\":{},\"file\":{},\"line\":{},\"x\":{}}}\n",
                    s(&path(tcx, def)),
                    s(&format!("{:?}", kind)),
                    s(&vis_str(tcx, def)),
                    eff.is_reachable(ldef),
                    arr(&variants),
                    arr(&discrs),
                    s(&file),
                    line,
                    exp.unwrap_or_else(|| "null".into())
                ));
            }
            DefKind::Impl { of_trait } => {
                let self_ty = tcx.type_of(def).instantiate_identity().skip_normalization();
                let self_adt = match self_ty.kind() {
                    ty::Adt(a, _) => Some(path(tcx, a.did())),
                    ty::Ref(_, inner, _) => match inner.kind() {
                        ty::Adt(a, _) => Some(format!("&{}", path(tcx, a.did()))),
                        _ => None,
                    },
                    _ => None,
                };
                let (trait_path, trait_ref) = if of_trait {
                    let tr = tcx.impl_trait_ref(def).instantiate_identity().skip_normalization();
                    (
                        Some(path(tcx, tr.def_id)),
                        Some(with_no_trimmed_paths!(tr.to_string())),
                    )
                } else {
                    (None, None)
                };
                let mut items = Vec::new();
                for it in tcx.associated_items(def).in_definition_order() {
                    items.push(format!(
                        "{{\"name\":{},\"path\":{},\"kind\":{}}}",
                        s(&it.name().to_string()),
                        s(&path(tcx, it.def_id)),
                        s(&format!("{:?}", tcx.def_kind(it.def_id)))
                    ));
                }
                let (file, line) = file_line(tcx, tcx.def_span(def));
                let (_, exp) = span_json(tcx, tcx.def_span(def));
                w.push_str(&format!(
                    "{{\"rec\":\"impl\",\"self_ty\":{},\"self_adt\":{},\"trait\":{},\"trait_ref\":{},\"derived\":{},\"items\":{},\"file\":{},\"line\":{},\"x\":{}}}\n",
                    s(&tys(self_ty)),
                    opt_s(self_adt.as_deref()),
                    opt_s(trait_path.as_deref()),
                    opt_s(trait_ref.as_deref()),
                    tcx.is_automatically_derived(def),
                    arr(&items),
                    s(&file),
                    line,
                    exp.unwrap_or_else(|| "null".into())
                ));
            }
            DefKind::Fn | DefKind::AssocFn => {
                let sig = tcx.fn_sig(def).instantiate_identity().skip_normalization();
                let sigs = with_no_trimmed_paths!(sig.to_string());
                let ret = tys(sig.skip_binder().output());
                let unsafe_ = sig.safety().is_unsafe();
                let parent = tcx.parent(def);
                let (parent_kind, parent_trait, parent_self) = match tcx.def_kind(parent) {
                    DefKind::Impl { of_trait } => {
                        let st = tcx.type_of(parent).instantiate_identity().skip_normalization();
                        let tr = if of_trait {
                            Some(path(tcx, tcx.impl_trait_ref(parent).instantiate_identity().skip_normalization().def_id))
                        } else {
                            None
                        };
                        ("impl", tr, Some(tys(st)))
                    }
                    DefKind::Trait => ("trait", Some(path(tcx, parent)), None),
                    _ => ("mod", None, None),
                };
                let (file, line) = file_line(tcx, tcx.def_span(def));
                w.push_str(&format!(
                    "{{\"rec\":\"fn\",\"path\":{},\"name\":{},\"unsafe\":{},\"vis\":{},\"reachable\":{},\"sig\":{},\"ret\":{},\"parent\":{},\"parent_trait\":{},\"parent_self\":{},\"async\":{},\"file\":{},\"line\":{}}}\n",
                    s(&path(tcx, def)),
                    s(&tcx.item_name(def).to_string()),
                    unsafe_,
                    s(&vis_str(tcx, def)),
                    eff.is_reachable(ldef),
                    s(&sigs),
                    s(&ret),
                    s(parent_kind),
                    opt_s(parent_trait.as_deref()),
                    opt_s(parent_self.as_deref()),
                    tcx.asyncness(def).is_async(),
                    s(&file),
                    line
                ));
            }
            DefKind::Const { .. } | DefKind::AssocConst { .. } | DefKind::Static { .. } => {
                let ty = tcx.type_of(def).instantiate_identity().skip_normalization();
                let generics = tcx.generics_of(def);
                let mut val = None;
                let has_body = match kind {
                    DefKind::AssocConst { .. } => match tcx.def_kind(tcx.parent(def)) {
                        DefKind::Trait => tcx.defaultness(def).has_value(),
                        _ => true,
                    },
                    _ => true,
                };
                let non_generic = generics.count() == 0 && generics.parent_count == 0;
                // generic-parent associated consts are evaluated too when their value does
                // not depend on the parameters (const_eval_poly reports TooGeneric otherwise)
                let small_scalar = ty.is_integral() || ty.is_bool() || ty.is_char()
                    || matches!(ty.kind(), ty::Adt(a, _) if a.is_struct() && a.non_enum_variant().fields.len() == 1);
                if has_body && (non_generic || (small_scalar && !matches!(kind, DefKind::Static { .. }))) {
                    let r = match kind {
                        DefKind::Static { .. } => tcx.eval_static_initializer(def).ok().and_then(|alloc| {
                            let len = alloc.inner().len();
                            if len <= 4096 {
                                let bytes = alloc.inner().inspect_with_uninit_and_ptr_outside_interpreter(0..len);
                                Some(arr(&bytes.iter().map(|b| b.to_string()).collect::<Vec<_>>()))
                            } else {
                                None
                            }
                        }),
                        _ => tcx.const_eval_poly(def).ok().and_then(|v| const_value_json(tcx, v, ty)),
                    };
                    val = r;
                }
                w.push_str(&format!(
                    "{{\"rec\":\"const\",\"path\":{},\"kind\":{},\"ty\":{},\"value\":{}}}\n",
                    s(&path(tcx, def)),
                    s(&format!("{:?}", kind)),
                    s(&tys(ty)),
                    val.unwrap_or_else(|| "null".into())
                ));
            }
            DefKind::Trait => {
                let mut items = Vec::new();
                for it in tcx.associated_items(def).in_definition_order() {
                    items.push(format!(
                        "{{\"name\":{},\"path\":{},\"kind\":{},\"default\":{}}}",
                        s(&it.name().to_string()),
                        s(&path(tcx, it.def_id)),
                        s(&format!("{:?}", tcx.def_kind(it.def_id))),
                        tcx.defaultness(it.def_id).has_value()
                    ));
                }
                w.push_str(&format!(
                    "{{\"rec\":\"trait\",\"path\":{},\"items\":{}}}\n",
                    s(&path(tcx, def)),
                    arr(&items)
                ));
            }
            _ => {}
        }
    }
}

// ---------------------------------------------------------------------------
// Bodies
// ---------------------------------------------------------------------------

struct Cx<'a, 'tcx> {
    tcx: TyCtxt<'tcx>,
    body: &'a Body<'tcx>,
    env: TypingEnv<'tcx>,
}

impl<'a, 'tcx> Cx<'a, 'tcx> {
    fn place(&self, p: &Place<'tcx>) -> String {
        self.place_parts(p.local.as_usize(), self.body.local_decls[p.local].ty, p.projection.iter())
    }

    fn place_parts(
        &self,
        local: usize,
        base_ty: Ty<'tcx>,
        proj: impl Iterator<Item = ProjectionElem<rustc_middle::mir::Local, Ty<'tcx>>>,
    ) -> String {
        let tcx = self.tcx;
        let mut parts = vec![local.to_string()];
        let mut pty = PlaceTy::from_ty(base_ty);
        for elem in proj {
            let part = match elem {
                ProjectionElem::Deref => "\"*\"".to_string(),
                ProjectionElem::Field(idx, _) => {
                    let name: Option<String> = match pty.ty.kind() {
                        ty::Adt(adt, _) => {
                            let v = pty.variant_index.unwrap_or(rustc_abi::FIRST_VARIANT);
                            if (v.as_usize()) < adt.variants().len() {
                                adt.variant(v).fields.get(idx).map(|f| f.name.to_string())
                            } else {
                                None
                            }
                        }
                        _ => None,
                    };
                    format!("[\".\",{},{}]", idx.as_usize(), opt_s(name.as_deref()))
                }
                ProjectionElem::Index(l) => format!("[\"[]\",{}]", l.as_usize()),
                ProjectionElem::ConstantIndex { offset, min_length: _, from_end } => {
                    format!("[\"c[]\",{},{}]", offset, from_end)
                }
                ProjectionElem::Subslice { from, to, from_end } => {
                    format!("[\"[..]\",{},{},{}]", from, to, from_end)
                }
                ProjectionElem::Downcast(name, vidx) => {
                    let n = name.map(|n| n.to_string()).unwrap_or_else(|| format!("{}", vidx.as_usize()));
                    format!("[\"as\",{}]", s(&n))
                }
                ProjectionElem::OpaqueCast(_) => "[\"opaque\"]".to_string(),
                ProjectionElem::UnwrapUnsafeBinder(_) => "[\"unbind\"]".to_string(),
            };
            parts.push(part);
            pty = pty.projection_ty(tcx, elem);
        }
        arr(&parts)
    }

    fn konst(&self, c: &Const<'tcx>) -> String {
        let tcx = self.tcx;
        let ty = c.ty();
        let mut val: Option<String> = None;
        let mut def: Option<String> = None;
        // function items and other ZST defs
        if let ty::FnDef(d, args) = ty.kind() {
            def = Some(with_no_trimmed_paths!(tcx.def_path_str_with_args(*d, args)));
        }
        match c {
            Const::Unevaluated(uv, _) => {
                def = Some(with_no_trimmed_paths!(tcx.def_path_str_with_args(uv.def, uv.args)));
                if uv.promoted.is_none() {
                    if let Some(si) = c.try_eval_scalar_int(tcx, self.env) {
                        val = Some(format!("{}", si.to_bits_unchecked()));
                    }
                }
            }
            Const::Val(v, ty) => match v {
                ConstValue::Scalar(sc) => {
                    if let Ok(si) = sc.try_to_scalar_int() {
                        val = Some(format!("{}", si.to_bits_unchecked()));
                    } else if let rustc_middle::mir::interpret::Scalar::Ptr(ptr, _) = sc {
                        // a reference to a static (`&ring::signature::RSA_PKCS1_SHA512`): name the static
                        {
                            let (prov, _off) = ptr.prov_and_relative_offset();
                            if let Some(rustc_middle::mir::interpret::GlobalAlloc::Static(did)) =
                                tcx.try_get_global_alloc(prov.alloc_id())
                            {
                                def = Some(with_no_trimmed_paths!(tcx.def_path_str(did)));
                            }
                        }
                        // thin reference to a byte array (e.g. format_args! templates): emit the bytes
                        if let ty::Ref(_, inner, _) = ty.kind() {
                            if let ty::Array(e, n) = inner.kind() {
                                if matches!(e.kind(), ty::Uint(ty::UintTy::U8)) {
                                    if let Some(len) = n.try_to_target_usize(tcx) {
                                        let (prov, off) = ptr.prov_and_relative_offset();
                                        if let Some(rustc_middle::mir::interpret::GlobalAlloc::Memory(alloc)) =
                                            tcx.try_get_global_alloc(prov.alloc_id())
                                        {
                                            let start = off.bytes() as usize;
                                            let len = len as usize;
                                            if len <= 256 && start + len <= alloc.inner().len() {
                                                let bytes = alloc
                                                    .inner()
                                                    .inspect_with_uninit_and_ptr_outside_interpreter(start..start + len);
                                                val = Some(arr(&bytes.iter().map(|b| b.to_string()).collect::<Vec<_>>()));
                                            }
                                        }
                                    }
                                }
                            }
                        }
                    }
                }
                ConstValue::Slice { .. } => {
                    if let Some(bytes) = v.try_get_slice_bytes_for_diagnostics(tcx) {
                        if bytes.len() <= 256 {
                            if let Ok(st) = std::str::from_utf8(bytes) {
                                if matches!(ty.kind(), ty::Ref(_, t, _) if t.is_str()) {
                                    val = Some(s(st));
                                }
                            }
                            if val.is_none() {
                                val = Some(arr(&bytes.iter().map(|b| b.to_string()).collect::<Vec<_>>()));
                            }
                        }
                    }
                }
                _ => {}
            },
            Const::Ty(_, ct) => {
                if let Some(v) = ct.try_to_target_usize(tcx) {
                    val = Some(v.to_string());
                } else if let Some(si) = c.try_eval_scalar_int(tcx, self.env) {
                    val = Some(format!("{}", si.to_bits_unchecked()));
                    def = Some(format!("{:?}", ct));
                } else {
                    def = Some(format!("{:?}", ct));
                }
            }
        }
        format!(
            "[\"k\",{},{},{}]",
            s(&tys(ty)),
            val.unwrap_or_else(|| "null".into()),
            opt_s(def.as_deref())
        )
    }

    fn operand(&self, o: &Operand<'tcx>) -> String {
        match o {
            Operand::Copy(p) => format!("[\"c\",{}]", self.place(p)),
            Operand::Move(p) => format!("[\"m\",{}]", self.place(p)),
            Operand::Constant(c) => self.konst(&c.const_),
            Operand::RuntimeChecks(_) => "[\"rt\"]".to_string(),
        }
    }

    fn rvalue(&self, r: &Rvalue<'tcx>) -> String {
        let tcx = self.tcx;
        match r {
            Rvalue::Use(o, _) => format!("[\"use\",{}]", self.operand(o)),
            Rvalue::Repeat(o, n) => format!(
                "[\"repeat\",{},{}]",
                self.operand(o),
                opt_n(n.try_to_target_usize(tcx))
            ),
            Rvalue::Ref(_, bk, p) => {
                let m = matches!(bk, BorrowKind::Mut { .. });
                format!("[\"ref\",{},{}]", m, self.place(p))
            }
            Rvalue::ThreadLocalRef(d) => format!("[\"tls\",{}]", s(&path(tcx, *d))),
            Rvalue::RawPtr(k, p) => format!("[\"ptr\",{},{}]", s(&format!("{:?}", k)), self.place(p)),
            Rvalue::Cast(k, o, t) => format!(
                "[\"cast\",{},{},{},{}]",
                s(&format!("{:?}", k).split('(').next().unwrap_or("").to_string()),
                self.operand(o),
                s(&tys(*t)),
                s(&tys(o.ty(&self.body.local_decls, tcx)))
            ),
            Rvalue::BinaryOp(op, ab) => format!(
                "[\"bin\",{},{},{}]",
                s(&format!("{:?}", op)),
                self.operand(&ab.0),
                self.operand(&ab.1)
            ),
            Rvalue::UnaryOp(op, a) => format!("[\"un\",{},{}]", s(&format!("{:?}", op)), self.operand(a)),
            Rvalue::Discriminant(p) => format!(
                "[\"discr\",{},{}]",
                self.place(p),
                s(&tys(p.ty(&self.body.local_decls, tcx).ty))
            ),
            Rvalue::Aggregate(k, ops) => {
                let kind = match &**k {
                    AggregateKind::Array(t) => format!("[\"array\",{}]", s(&tys(*t))),
                    AggregateKind::Tuple => "[\"tuple\"]".to_string(),
                    AggregateKind::Adt(d, v, _, _, active) => {
                        let adt = tcx.adt_def(*d);
                        let var = adt.variant(*v);
                        let fields: Vec<String> = match active {
                            Some(f) => vec![s(&var.fields[*f].name.to_string())],
                            None => var.fields.iter().map(|f| s(&f.name.to_string())).collect(),
                        };
                        format!(
                            "[\"adt\",{},{},{}]",
                            s(&path(tcx, *d)),
                            s(&var.name.to_string()),
                            arr(&fields)
                        )
                    }
                    AggregateKind::Closure(d, _) => format!("[\"closure\",{}]", s(&path(tcx, *d))),
                    AggregateKind::Coroutine(d, _) => format!("[\"coroutine\",{}]", s(&path(tcx, *d))),
                    AggregateKind::CoroutineClosure(d, _) => format!("[\"coroclosure\",{}]", s(&path(tcx, *d))),
                    AggregateKind::RawPtr(..) => "[\"rawptr\"]".to_string(),
                };
                let ops: Vec<String> = ops.iter().map(|o| self.operand(o)).collect();
                format!("[\"agg\",{},{}]", kind, arr(&ops))
            }
            Rvalue::CopyForDeref(p) => format!("[\"deref\",{}]", self.place(p)),
            Rvalue::WrapUnsafeBinder(o, _) => format!("[\"use\",{}]", self.operand(o)),
        }
    }

    fn bb(b: BasicBlock) -> usize {
        b.as_usize()
    }

    fn unwind(u: &UnwindAction) -> String {
        match u {
            UnwindAction::Cleanup(b) => Self::bb(*b).to_string(),
            _ => "null".to_string(),
        }
    }

    fn terminator(&self, t: &rustc_middle::mir::Terminator<'tcx>, owner: DefId) -> String {
        let tcx = self.tcx;
        let (line, x) = span_json(tcx, t.source_info.span);
        let tail = format!("\"l\":{},\"x\":{}", line, x.unwrap_or_else(|| "null".into()));
        match &t.kind {
            TerminatorKind::Goto { target } => format!("{{\"k\":\"goto\",\"t\":{},{}}}", Self::bb(*target), tail),
            TerminatorKind::SwitchInt { discr, targets } => {
                let mut v = Vec::new();
                for (val, bb) in targets.iter() {
                    v.push(format!("[{},{}]", val, Self::bb(bb)));
                }
                format!(
                    "{{\"k\":\"switch\",\"d\":{},\"ty\":{},\"v\":{},\"o\":{},{}}}",
                    self.operand(discr),
                    s(&tys(discr.ty(&self.body.local_decls, tcx))),
                    arr(&v),
                    Self::bb(targets.otherwise()),
                    tail
                )
            }
            TerminatorKind::UnwindResume => format!("{{\"k\":\"resume\",{}}}", tail),
            TerminatorKind::UnwindTerminate(_) => format!("{{\"k\":\"abort\",{}}}", tail),
            TerminatorKind::Return => format!("{{\"k\":\"ret\",{}}}", tail),
            TerminatorKind::Unreachable => format!("{{\"k\":\"unreachable\",{}}}", tail),
            TerminatorKind::Drop { place, target, unwind, .. } => format!(
                "{{\"k\":\"drop\",\"p\":{},\"t\":{},\"u\":{},{}}}",
                self.place(place),
                Self::bb(*target),
                Self::unwind(unwind),
                tail
            ),
            TerminatorKind::Call { func, args, destination, target, unwind, .. } => {
                self.call(func, args.iter().map(|a| &a.node), Some(destination), *target, Some(unwind), owner, &tail, "call")
            }
            TerminatorKind::TailCall { func, args, .. } => {
                self.call(func, args.iter().map(|a| &a.node), None, None, None, owner, &tail, "tailcall")
            }
            TerminatorKind::Assert { cond, expected, msg, target, unwind } => {
                let m = match &**msg {
                    AssertKind::BoundsCheck { len, index } => {
                        format!("[\"bounds\",{},{}]", self.operand(len), self.operand(index))
                    }
                    AssertKind::Overflow(op, a, b) => format!(
                        "[\"overflow\",{},{},{}]",
                        s(&format!("{:?}", op)),
                        self.operand(a),
                        self.operand(b)
                    ),
                    AssertKind::OverflowNeg(a) => format!("[\"overflowneg\",{}]", self.operand(a)),
                    AssertKind::DivisionByZero(a) => format!("[\"divzero\",{}]", self.operand(a)),
                    AssertKind::RemainderByZero(a) => format!("[\"remzero\",{}]", self.operand(a)),
                    other => format!("[\"other\",{}]", s(&format!("{:?}", other).chars().take(40).collect::<String>())),
                };
                format!(
                    "{{\"k\":\"assert\",\"cond\":{},\"exp\":{},\"msg\":{},\"t\":{},\"u\":{},{}}}",
                    self.operand(cond),
                    expected,
                    m,
                    Self::bb(*target),
                    Self::unwind(unwind),
                    tail
                )
            }
            TerminatorKind::Yield { value, resume, resume_arg, drop } => format!(
                "{{\"k\":\"yield\",\"v\":{},\"t\":{},\"p\":{},\"drop\":{},{}}}",
                self.operand(value),
                Self::bb(*resume),
                self.place(resume_arg),
                opt_n(drop.map(Self::bb)),
                tail
            ),
            TerminatorKind::CoroutineDrop => format!("{{\"k\":\"corodrop\",{}}}", tail),
            TerminatorKind::FalseEdge { real_target, imaginary_target } => format!(
                "{{\"k\":\"false\",\"t\":{},\"i\":{},{}}}",
                Self::bb(*real_target),
                Self::bb(*imaginary_target),
                tail
            ),
            TerminatorKind::FalseUnwind { real_target, unwind } => format!(
                "{{\"k\":\"falseunwind\",\"t\":{},\"u\":{},{}}}",
                Self::bb(*real_target),
                Self::unwind(unwind),
                tail
            ),
            TerminatorKind::InlineAsm { .. } => format!("{{\"k\":\"asm\",{}}}", tail),
        }
    }

    #[allow(clippy::too_many_arguments)]
    fn call<'b>(
        &self,
        func: &Operand<'tcx>,
        args: impl Iterator<Item = &'b Operand<'tcx>>,
        dest: Option<&Place<'tcx>>,
        target: Option<BasicBlock>,
        unwind: Option<&UnwindAction>,
        _owner: DefId,
        tail: &str,
        k: &str,
    ) -> String
    where
        'tcx: 'b,
    {
        let tcx = self.tcx;
        let mut fn_path = None;
        let mut fn_full = None;
        let mut targs: Vec<String> = Vec::new();
        let mut res = None;
        let mut res_full = None;
        let mut trait_path = None;
        let mut fnop = None;
        if let Some((def, gargs)) = func.const_fn_def() {
            fn_path = Some(path(tcx, def));
            fn_full = Some(with_no_trimmed_paths!(tcx.def_path_str_with_args(def, gargs)));
            for a in gargs.iter() {
                if let Some(t) = a.as_type() {
                    targs.push(s(&tys(t)));
                } else if let Some(c) = a.as_const() {
                    targs.push(s(&format!("{:?}", c)));
                }
            }
            if let Some(tr) = tcx.trait_of_assoc(def) {
                trait_path = Some(path(tcx, tr));
            }
            if let Ok(Some(inst)) = Instance::try_resolve(tcx, self.env, def, gargs) {
                let rd = inst.def_id();
                if rd != def {
                    res = Some(path(tcx, rd));
                    res_full = Some(with_no_trimmed_paths!(tcx.def_path_str_with_args(rd, inst.args)));
                }
            }
        } else {
            fnop = Some(self.operand(func));
        }
        let args: Vec<String> = args.map(|a| self.operand(a)).collect();
        format!(
            "{{\"k\":{},\"fn\":{},\"full\":{},\"targs\":{},\"trait\":{},\"res\":{},\"resfull\":{},\"fnop\":{},\"args\":{},\"dest\":{},\"t\":{},\"u\":{},{}}}",
            s(k),
            opt_s(fn_path.as_deref()),
            opt_s(fn_full.as_deref()),
            arr(&targs),
            opt_s(trait_path.as_deref()),
            opt_s(res.as_deref()),
            opt_s(res_full.as_deref()),
            fnop.unwrap_or_else(|| "null".into()),
            arr(&args),
            dest.map(|d| self.place(d)).unwrap_or_else(|| "null".into()),
            opt_n(target.map(Self::bb)),
            unwind.map(Self::unwind).unwrap_or_else(|| "null".into()),
            tail
        )
    }
}

pub fn dump_body<'tcx>(tcx: TyCtxt<'tcx>, ldef: LocalDefId, body: &Body<'tcx>, w: &mut String) {
    let def = ldef.to_def_id();
    let kind = tcx.def_kind(def);
    let env = TypingEnv::post_analysis(tcx, def);
    let cx = Cx { tcx, body, env };
    let (file, line) = file_line(tcx, body.span);
    let (_, bx) = span_json(tcx, body.span);

    let mut locals = Vec::new();
    for d in body.local_decls.iter() {
        locals.push(s(&tys(d.ty)));
    }
    let mut vars = Vec::new();
    for v in &body.var_debug_info {
        if let VarDebugInfoContents::Place(p) = &v.value {
            vars.push(format!("[{},{}]", s(&v.name.to_string()), cx.place(p)));
        }
    }
    let mut blocks = Vec::new();
    for (_bb, data) in body.basic_blocks.iter_enumerated() {
        let mut stmts = Vec::new();
        for st in &data.statements {
            match &st.kind {
                StatementKind::Assign(b) => {
                    let (pl, rv) = &**b;
                    let (line, x) = span_json(tcx, st.source_info.span);
                    stmts.push(format!(
                        "[\"=\",{},{},{},{}]",
                        cx.place(pl),
                        cx.rvalue(rv),
                        line,
                        x.unwrap_or_else(|| "null".into())
                    ));
                }
                StatementKind::SetDiscriminant { place, variant_index } => {
                    stmts.push(format!("[\"setdiscr\",{},{}]", cx.place(place), variant_index.as_usize()));
                }
                _ => {}
            }
        }
        let term = cx.terminator(data.terminator(), def);
        blocks.push(format!(
            "{{\"s\":{},\"t\":{},\"c\":{}}}",
            arr(&stmts),
            term,
            data.is_cleanup
        ));
    }
    let parent_fn = {
        // For closures/coroutines/anon consts: the enclosing item.
        let tr = tcx.typeck_root_def_id(def);
        if tr != def { Some(path(tcx, tr)) } else { None }
    };
    w.push_str(&format!(
        "{{\"rec\":\"body\",\"path\":{},\"kind\":{},\"root\":{},\"file\":{},\"line\":{},\"x\":{},\"nargs\":{},\"coroutine\":{},\"locals\":{},\"vars\":{},\"blocks\":{}}}\n",
        s(&path(tcx, def)),
        s(&format!("{:?}", kind)),
        opt_s(parent_fn.as_deref()),
        s(&file),
        line,
        bx.unwrap_or_else(|| "null".into()),
        body.arg_count,
        body.coroutine.is_some(),
        arr(&locals),
        arr(&vars),
        arr(&blocks)
    ));
}
