//! Minimal JSON string building helpers (no dependencies).

pub fn esc(s: &str, out: &mut String) {
    out.push('"');
    for c in s.chars() {
        match c {
            '"' => out.push_str("\\\""),
            '\\' => out.push_str("\\\\"),
            '\n' => out.push_str("\\n"),
            '\r' => out.push_str("\\r"),
            '\t' => out.push_str("\\t"),
            c if (c as u32) < 0x20 => out.push_str(&format!("\\u{:04x}", c as u32)),
            c => out.push(c),
        }
    }
    out.push('"');
}

pub fn s(x: &str) -> String {
    let mut o = String::with_capacity(x.len() + 2);
    esc(x, &mut o);
    o
}

pub fn arr(items: &[String]) -> String {
    let mut o = String::from("[");
    for (i, it) in items.iter().enumerate() {
        if i > 0 {
            o.push(',');
        }
        o.push_str(it);
    }
    o.push(']');
    o
}

pub fn opt_s(x: Option<&str>) -> String {
    match x {
        Some(v) => s(v),
        None => "null".to_string(),
    }
}

pub fn opt_n<T: std::fmt::Display>(x: Option<T>) -> String {
    match x {
        Some(v) => format!("{}", v),
        None => "null".to_string(),
    }
}
